package agent

// Shared helpers of the C28 / C29 agent-level harnesses:
//   * c28Gen: command generator that knows whether a command is valid (by construction and
//     by an independent crypto/ed25519 check),
//   * c28Rig: a real, started Agent (sleep enabled, management.signing_public_key set) whose
//     sleep-manager callbacks are wrapped by recording ones, plus fake peers connected
//     through the agent's own accept path (handleIncomingConnection) over in-memory pipes.
//     Frames are fed through the agent's own dispatch (processFrame); everything the agent
//     sends to the fake peers is read from the pipes; a sentinel frame delimits steps.

import (
	"context"
	"crypto/ed25519"
	"encoding/hex"
	"errors"
	"fmt"
	"net"
	"strings"
	"sync"
	"sync/atomic"
	"time"

	"github.com/postalsys/muti-metroo/internal/config"
	"github.com/postalsys/muti-metroo/internal/crypto"
	"github.com/postalsys/muti-metroo/internal/flood"
	"github.com/postalsys/muti-metroo/internal/identity"
	"github.com/postalsys/muti-metroo/internal/protocol"
	"github.com/postalsys/muti-metroo/internal/sleep"
	"github.com/postalsys/muti-metroo/internal/transport"
	"github.com/postalsys/muti-metroo/internal/verifkit"
)

// ---------------------------------------------------------------- commands

// c28Family maps a construction class to the structural family used in violation keys.
func c28Family(class string) string {
	class = strings.TrimSuffix(class, "+same-id")
	switch class {
	case "valid", "absent", "both-invalid":
		return class
	case "unsigned", "stale-unsigned":
		return "unsigned"
	case "random-sig", "one-nonzero-sig-byte", "wrong-key", "sig-bitflip", "sig-of-other-command", "stale-wrong-key":
		return "bad-signature"
	case "origin-changed", "id-changed", "ts-changed":
		return "signed-content-changed"
	case "stale-signed-future-300y", "stale-signed-future-1000y", "stale-signed-two-pow-62":
		return "signed-ts-beyond-duration-range"
	}
	if strings.HasPrefix(class, "stale-signed-") {
		return "signed-stale"
	}
	return "other"
}

type c28Cmd struct {
	Wake   bool
	Origin identity.AgentID
	ID     uint64
	TS     uint64
	Sig    [protocol.SignatureSize]byte
	SeenBy []identity.AgentID

	Class string
	SigOK bool // verifies under the configured key over the bytes the repository signs
	TSIn  bool // built >= window/2 inside the window (all others are >= 2 x window outside)
}

func (c *c28Cmd) valid() bool { return c.SigOK && c.TSIn }

func (c *c28Cmd) typ() string {
	if c.Wake {
		return "wake"
	}
	return "sleep"
}

func (c *c28Cmd) sleepCmd() *protocol.SleepCommand {
	return &protocol.SleepCommand{OriginAgent: c.Origin, CommandID: c.ID, Timestamp: c.TS, Signature: c.Sig,
		SeenBy: append([]identity.AgentID(nil), c.SeenBy...)}
}

func (c *c28Cmd) wakeCmd() *protocol.WakeCommand {
	return &protocol.WakeCommand{OriginAgent: c.Origin, CommandID: c.ID, Timestamp: c.TS, Signature: c.Sig,
		SeenBy: append([]identity.AgentID(nil), c.SeenBy...)}
}

func (c *c28Cmd) signable() []byte {
	if c.Wake {
		return c.wakeCmd().SignableBytes()
	}
	return c.sleepCmd().SignableBytes()
}

func (c *c28Cmd) tuple() string { return fmt.Sprintf("%x/%d/%d/%x", c.Origin[:], c.ID, c.TS, c.Sig[:]) }

func (c *c28Cmd) witness() map[string]any {
	return map[string]any{"type": c.typ(), "class": c.Class, "origin": fmt.Sprintf("%x", c.Origin[:]), "id": c.ID,
		"ts": c.TS, "sig": verifkit.Hex(c.Sig[:]), "seen_by": len(c.SeenBy), "sig_ok": c.SigOK, "ts_in_window": c.TSIn}
}

// as returns a copy presented as the other/same command type (same signed content).
func (c *c28Cmd) as(wake bool, pub [32]byte) *c28Cmd {
	d := *c
	d.Wake = wake
	d.SigOK = ed25519.Verify(ed25519.PublicKey(pub[:]), d.signable(), d.Sig[:])
	return &d
}

type c28Gen struct {
	rng    *verifkit.Rand
	good   *crypto.SigningKeypair
	other  *crypto.SigningKeypair
	window time.Duration
	now    time.Time
	nextID uint64
}

func c28NewGen(rng *verifkit.Rand, window time.Duration) *c28Gen {
	var s1, s2 [crypto.Ed25519SeedSize]byte
	rng.Fill(s1[:])
	rng.Fill(s2[:])
	return &c28Gen{rng: rng, good: crypto.SigningKeypairFromSeed(s1), other: crypto.SigningKeypairFromSeed(s2),
		window: window, now: time.Now(), nextID: 1 + uint64(rng.Intn(1000))}
}

func c28ID(rng *verifkit.Rand) identity.AgentID {
	var id identity.AgentID
	rng.Fill(id[:])
	return id
}

func (g *c28Gen) tsInside() uint64 {
	k := g.rng.Range(-2, 2)
	return uint64(g.now.Add(time.Duration(k) * g.window / 4).Unix())
}

func (g *c28Gen) tsAt(off time.Duration) uint64 { return uint64(g.now.Add(off).Unix()) }

var c28OutsideKinds = []string{"past-w+30s", "future-w+30s", "past-w+2m", "future-w+2m", "past-w+4m", "future-w+4m", "past-w+10m", "future-w+10m", "past-3w", "future-3w", "past-2w", "future-2w", "zero", "future-10y",
	"future-300y", "two-pow-62", "max-int64", "min-int64", "max-uint64"}

func (g *c28Gen) tsOutside() (uint64, string) {
	kind := verifkit.Pick(g.rng, c28OutsideKinds)
	const year = 365 * 24 * 3600
	now := g.now.Unix()
	switch kind {
	case "past-w+30s":
		return g.tsAt(-g.window - 30*time.Second), kind
	case "future-w+30s":
		return g.tsAt(g.window + 30*time.Second), kind
	case "past-w+2m":
		return g.tsAt(-g.window - 2*time.Minute), kind
	case "future-w+2m":
		return g.tsAt(g.window + 2*time.Minute), kind
	case "past-w+4m":
		return g.tsAt(-g.window - 4*time.Minute), kind
	case "future-w+4m":
		return g.tsAt(g.window + 4*time.Minute), kind
	case "past-w+10m":
		return g.tsAt(-g.window - 10*time.Minute), kind
	case "future-w+10m":
		return g.tsAt(g.window + 10*time.Minute), kind
	case "past-3w":
		return g.tsAt(-3 * g.window), kind
	case "future-3w":
		return g.tsAt(3 * g.window), kind
	case "past-2w":
		return g.tsAt(-2 * g.window), kind
	case "future-2w":
		return g.tsAt(2 * g.window), kind
	case "zero":
		return 0, kind
	case "future-10y":
		return uint64(now + 10*year), kind
	case "future-300y":
		return uint64(now + 300*year), kind
	case "two-pow-62":
		return 1 << 62, kind
	case "max-int64":
		return 1<<63 - 1, kind
	case "min-int64":
		return 1 << 63, kind
	default:
		return ^uint64(0), kind
	}
}

func (g *c28Gen) sign(c *c28Cmd, kp *crypto.SigningKeypair) {
	c.Sig = crypto.Sign(kp.PrivateKey, c.signable())
}

func (g *c28Gen) finish(c *c28Cmd) *c28Cmd {
	c.SigOK = ed25519.Verify(ed25519.PublicKey(g.good.PublicKey[:]), c.signable(), c.Sig[:])
	return c
}

func (g *c28Gen) fresh(wake bool) *c28Cmd {
	g.nextID += 1 + uint64(g.rng.Intn(3))
	return &c28Cmd{Wake: wake, Origin: c28ID(g.rng), ID: g.nextID, TS: g.tsInside(), TSIn: true}
}

func (g *c28Gen) genuine(wake bool) *c28Cmd {
	c := g.fresh(wake)
	c.Class = "valid"
	g.sign(c, g.good)
	return g.finish(c)
}

// genuineAt is genuine with timestamp now+off.
func (g *c28Gen) genuineAt(wake bool, off time.Duration) *c28Cmd {
	c := g.fresh(wake)
	c.Class = "valid"
	c.TS = g.tsAt(off)
	g.sign(c, g.good)
	return g.finish(c)
}

var c28InvalidClasses = []string{"unsigned", "random-sig", "wrong-key", "sig-bitflip", "origin-changed", "id-changed",
	"ts-changed", "sig-of-other-command", "stale-signed", "stale-unsigned", "one-nonzero-sig-byte"}

func (g *c28Gen) invalid(class string, wake bool, base *c28Cmd) *c28Cmd {
	c := g.fresh(wake)
	if base != nil {
		c.Origin, c.ID, c.TS = base.Origin, base.ID, base.TS
	}
	c.Class = class
	switch class {
	case "unsigned":
	case "random-sig":
		g.rng.Fill(c.Sig[:])
		c.Sig[0] |= 1
	case "one-nonzero-sig-byte":
		c.Sig[g.rng.Intn(len(c.Sig))] = byte(1 + g.rng.Intn(255))
	case "wrong-key":
		g.sign(c, g.other)
	case "sig-bitflip":
		g.sign(c, g.good)
		c.Sig[g.rng.Intn(len(c.Sig))] ^= 1 << uint(g.rng.Intn(8))
	case "origin-changed":
		g.sign(c, g.good)
		if g.rng.Bool() {
			c.Origin = c28ID(g.rng)
		} else {
			c.Origin[g.rng.Intn(len(c.Origin))] ^= 1 << uint(g.rng.Intn(8))
		}
	case "id-changed":
		g.sign(c, g.good)
		c.ID += uint64(1 + g.rng.Intn(5))
		g.nextID = c.ID + 1
	case "ts-changed":
		g.sign(c, g.good)
		old := c.TS
		for c.TS == old {
			c.TS = g.tsInside() + uint64(g.rng.Intn(3))
		}
	case "sig-of-other-command":
		o := g.genuine(g.rng.Bool())
		c.Sig = o.Sig
	case "stale-signed":
		var kind string
		c.TS, kind = g.tsOutside()
		c.Class = "stale-signed-" + kind
		c.TSIn = false
		g.sign(c, g.good)
	case "stale-unsigned":
		c.TS, _ = g.tsOutside()
		c.TSIn = false
	default:
		panic("unknown class " + class)
	}
	return g.finish(c)
}

// ---------------------------------------------------------------- in-memory transport

type c28Addr string

func (a c28Addr) Network() string { return "pipe" }
func (a c28Addr) String() string  { return string(a) }

// c28Stream adapts one end of a net.Pipe to transport.Stream.
type c28Stream struct{ net.Conn }

func (s *c28Stream) StreamID() uint64  { return 0 }
func (s *c28Stream) CloseWrite() error { return nil }

// c28Conn is the agent-side transport.PeerConn of a fake peer: exactly one stream (the
// control stream) can be accepted; it is never a dialer.
type c28Conn struct {
	stream   *c28Stream
	taken    atomic.Bool
	closed   chan struct{}
	closeOne sync.Once
}

func (c *c28Conn) OpenStream(ctx context.Context) (transport.Stream, error) {
	return nil, errors.New("c28Conn: no further streams")
}

func (c *c28Conn) AcceptStream(ctx context.Context) (transport.Stream, error) {
	if c.taken.CompareAndSwap(false, true) {
		return c.stream, nil
	}
	select {
	case <-ctx.Done():
		return nil, ctx.Err()
	case <-c.closed:
		return nil, errors.New("c28Conn: closed")
	}
}

func (c *c28Conn) Close() error {
	c.closeOne.Do(func() { close(c.closed); c.stream.Close() })
	return nil
}
func (c *c28Conn) LocalAddr() net.Addr                    { return c28Addr("agent") }
func (c *c28Conn) RemoteAddr() net.Addr                   { return c28Addr("fakepeer") }
func (c *c28Conn) IsDialer() bool                         { return false }
func (c *c28Conn) TransportType() transport.TransportType { return transport.TransportQUIC }

// ---------------------------------------------------------------- fake peer

type c28Rx struct {
	Type    uint8
	Payload []byte
}

// c28Peer is the remote end of one connection: it performs the dialer side of the
// PEER_HELLO handshake by hand and then records every frame the agent sends.
type c28Peer struct {
	id   identity.AgentID
	pc   net.Conn
	mu   sync.Mutex
	rx   []c28Rx // SLEEP_COMMAND / WAKE_COMMAND / QUEUED_STATE frames received
	tok  chan uint64
	done chan struct{} // reader exited (connection closed by the agent)
}

const c28SentinelBase = uint64(0xC28) << 48

func (p *c28Peer) alive() bool {
	select {
	case <-p.done:
		return false
	default:
		return true
	}
}

func (p *c28Peer) take() []c28Rx {
	p.mu.Lock()
	defer p.mu.Unlock()
	out := p.rx
	p.rx = nil
	return out
}

func (p *c28Peer) run(hs chan<- error) {
	defer close(p.done)
	defer p.pc.Close() // never leave the agent blocked writing to a reader that is gone
	w := protocol.NewFrameWriter(p.pc)
	rd := protocol.NewFrameReader(p.pc)
	hello := &protocol.PeerHello{Version: protocol.ProtocolVersion, AgentID: p.id, Timestamp: uint64(time.Now().UnixNano()),
		DisplayName: "verif-fake-peer"}
	if err := w.Write(&protocol.Frame{Type: protocol.FramePeerHello, StreamID: protocol.ControlStreamID, Payload: hello.Encode()}); err != nil {
		hs <- err
		return
	}
	fr, err := rd.Read()
	if err == nil && fr.Type != protocol.FramePeerHelloAck {
		err = fmt.Errorf("expected PEER_HELLO_ACK, got 0x%02x", fr.Type)
	}
	hs <- err
	if err != nil {
		return
	}
	for {
		fr, err := rd.Read()
		if err != nil {
			return
		}
		switch fr.Type {
		case protocol.FrameKeepalive:
			if ka, err := protocol.DecodeKeepalive(fr.Payload); err == nil && ka.Timestamp&^uint64(0xFFFFFFFFFFFF) == c28SentinelBase {
				p.tok <- ka.Timestamp
			}
		case protocol.FrameSleepCommand, protocol.FrameWakeCommand, protocol.FrameQueuedState:
			p.mu.Lock()
			p.rx = append(p.rx, c28Rx{Type: fr.Type, Payload: append([]byte(nil), fr.Payload...)})
			p.mu.Unlock()
		}
	}
}

// ---------------------------------------------------------------- rig

type c28Event struct {
	Kind string // "sleep" | "wake"
}

type c28Rig struct {
	a       *Agent
	r       *verifkit.R
	gen     *c28Gen
	peers   map[identity.AgentID]*c28Peer
	ids     []identity.AgentID // fake peer ids: ids[0] is the sender, the rest observe
	evMu    sync.Mutex
	events  []c28Event
	tokN    uint64
	canSign bool
	broken  string // set when the rig could not do its job (=> inconclusive, never a violation)
}

const c28Watchdog = 60 * time.Second

// c28RigOpts selects the configuration of the agent under test.
type c28RigOpts struct {
	Window, TTL time.Duration // > 0: short-window flooder (see c28NewRigTimed)
	NoSleep     bool          // sleep.enabled = false (a pure relay: forwards commands, never sleeps)
	NoKey       bool          // management.signing_public_key not set (unsigned mode: property not applicable)
	Priv        int           // 0: random, 1: private key present too, 2: public key only
}

// c28NewRig builds and starts a real agent with sleep enabled and a signing public key.
func c28NewRig(r *verifkit.R, rng *verifkit.Rand, dataDir string, npeers int) (*c28Rig, error) {
	return c28NewRigOpts(r, rng, dataDir, npeers, c28RigOpts{})
}

// c28NewRigTimed is c28NewRig; with window > 0 the agent's flooder is replaced, between New
// and Start, by one built with the exported constructor on the same routing/peer managers
// and the same signing key but a short timestamp window and seen-cache TTL, so that
// histories in which real time passes beyond the window fit into a few seconds.
func c28NewRigTimed(r *verifkit.R, rng *verifkit.Rand, dataDir string, npeers int, window, ttl time.Duration) (*c28Rig, error) {
	return c28NewRigOpts(r, rng, dataDir, npeers, c28RigOpts{Window: window, TTL: ttl})
}

// c28NewRigOpts builds the agent through the real agent.New path (which wires the signing
// key into the flooder) with the requested configuration combination.
func c28NewRigOpts(r *verifkit.R, rng *verifkit.Rand, dataDir string, npeers int, o c28RigOpts) (*c28Rig, error) {
	window, ttl := o.Window, o.TTL
	gw := window
	if gw == 0 {
		gw = 5 * time.Minute // the agent uses the flooder's default window
	}
	g := c28NewGen(rng, gw)
	cfg := config.Default()
	cfg.Agent.DataDir = dataDir
	cfg.Agent.LogLevel = "error"
	cfg.Sleep.Enabled = !o.NoSleep
	cfg.Sleep.PollInterval = time.Hour // no poll cycle during a case
	cfg.Sleep.PersistState = rng.Bool()
	canSign := rng.Bool() // an operator's agent also holds the private key (TriggerSleep signs with it)
	if o.Priv != 0 {
		canSign = o.Priv == 1
	}
	if o.NoKey {
		canSign = false
	} else {
		cfg.Management.SigningPublicKey = hex.EncodeToString(g.good.PublicKey[:])
		if canSign {
			cfg.Management.SigningPrivateKey = hex.EncodeToString(g.good.PrivateKey[:])
		}
	}
	a, err := New(cfg)
	if err != nil {
		return nil, fmt.Errorf("agent.New: %w", err)
	}
	if window > 0 {
		fc := flood.DefaultFloodConfig()
		fc.Logger = a.logger
		pub := g.good.PublicKey
		fc.SigningPublicKey = &pub
		fc.TimestampWindow = window
		fc.SeenCacheTTL = ttl
		a.flooder.Stop()
		a.flooder = flood.NewFlooder(fc, a.id, a.routeMgr, a.peerMgr)
	}
	if err := a.Start(); err != nil {
		return nil, fmt.Errorf("agent.Start: %w", err)
	}
	if a.sleepMgr == nil && !o.NoSleep {
		a.Stop()
		return nil, errors.New("sleep manager not created although sleep.enabled is true")
	}
	h := &c28Rig{a: a, r: r, gen: g, peers: map[identity.AgentID]*c28Peer{}, canSign: canSign}
	if a.sleepMgr != nil {
		// recording wrappers around the agent's own callbacks (behaviour unchanged)
		a.sleepMgr.SetCallbacks(sleep.Callbacks{
			OnSleep: func() error { h.event("sleep"); return a.enterSleep() },
			OnWake:  func() error { h.event("wake"); return a.exitSleep() },
			OnPoll:  a.doPoll,
		})
	}
	for i := 0; i < npeers; i++ {
		h.ids = append(h.ids, c28ID(rng))
	}
	return h, nil
}

// state returns the sleep state, or "NO-SLEEP-MANAGER" for an agent with sleep disabled.
func (h *c28Rig) state() string {
	if h.a.sleepMgr == nil {
		return "NO-SLEEP-MANAGER"
	}
	return h.a.sleepMgr.GetState().String()
}

func (h *c28Rig) event(kind string) {
	h.evMu.Lock()
	h.events = append(h.events, c28Event{Kind: kind})
	h.evMu.Unlock()
}

func (h *c28Rig) takeEvents() (sleeps, wakes int) {
	h.evMu.Lock()
	defer h.evMu.Unlock()
	for _, e := range h.events {
		if e.Kind == "sleep" {
			sleeps++
		} else {
			wakes++
		}
	}
	h.events = nil
	return
}

func (h *c28Rig) stop() {
	ctx, cancel := context.WithTimeout(context.Background(), c28Watchdog)
	defer cancel()
	if err := h.a.StopWithContext(ctx); err != nil {
		h.r.Inconclusive("agent did not stop within the watchdog: " + err.Error())
	}
}

// connect makes sure every fake peer has a live connection to the agent, using the agent's
// own accept path. Returns the sleep/wake frames the agent sent while connecting.
func (h *c28Rig) connect() []c28Rx {
	var got []c28Rx
	for _, id := range h.ids {
		if p := h.peers[id]; p != nil && p.alive() && h.a.peerMgr.GetPeer(id) != nil {
			continue
		}
		if p := h.peers[id]; p != nil {
			// a dead connection may still be draining: wait until its reader is gone
			p.pc.Close()
			h.wait(p.done, "old fake-peer reader to exit")
			got = append(got, p.take()...)
		}
		ac, pc := net.Pipe()
		p := &c28Peer{id: id, pc: pc, tok: make(chan uint64, 16), done: make(chan struct{})}
		fc := &c28Conn{stream: &c28Stream{Conn: ac}, closed: make(chan struct{})}
		hs := make(chan error, 1)
		go p.run(hs)
		h.a.wg.Add(1) // handleIncomingConnection is written to run as a tracked goroutine
		h.a.handleIncomingConnection(fc)
		select {
		case err := <-hs:
			if err != nil {
				h.broken = "fake peer handshake failed: " + err.Error()
				return got
			}
		case <-time.After(c28Watchdog):
			h.broken = "fake peer handshake watchdog"
			return got
		}
		if h.a.peerMgr.GetPeer(id) == nil {
			h.broken = "fake peer not registered after handshake"
			return got
		}
		h.peers[id] = p
	}
	got = append(got, h.barrier()...)
	return got
}

func (h *c28Rig) wait(ch <-chan struct{}, what string) {
	select {
	case <-ch:
	case <-time.After(c28Watchdog):
		h.broken = "watchdog waiting for " + what
	}
}

// barrier returns every sleep/wake/queued frame the fake peers have received up to now.
// For a live connection a sentinel KEEPALIVE is sent through the agent's peer manager and
// awaited (frames on one connection are ordered); for a connection the agent closed, the
// reader's exit is awaited.
func (h *c28Rig) barrier() []c28Rx {
	var got []c28Rx
	for _, id := range h.ids {
		p := h.peers[id]
		if p == nil {
			continue
		}
		h.tokN++
		tok := c28SentinelBase | h.tokN
		ka := &protocol.Keepalive{Timestamp: tok}
		err := h.a.peerMgr.SendToPeer(id, &protocol.Frame{Type: protocol.FrameKeepalive, StreamID: protocol.ControlStreamID, Payload: ka.Encode()})
		if err != nil {
			h.wait(p.done, "closed fake-peer connection to drain")
		} else {
			deadline := time.After(c28Watchdog)
		loop:
			for {
				select {
				case t := <-p.tok:
					if t == tok {
						break loop
					}
				case <-p.done:
					break loop
				case <-deadline:
					h.broken = "watchdog waiting for sentinel"
					break loop
				}
			}
		}
		got = append(got, p.take()...)
	}
	return got
}

// frames for the three paths a command can arrive by
func c28SleepFrame(c *c28Cmd) *protocol.Frame {
	return &protocol.Frame{Type: protocol.FrameSleepCommand, StreamID: protocol.ControlStreamID, Payload: c.sleepCmd().Encode()}
}

func c28WakeFrame(c *c28Cmd) *protocol.Frame {
	return &protocol.Frame{Type: protocol.FrameWakeCommand, StreamID: protocol.ControlStreamID, Payload: c.wakeCmd().Encode()}
}

func c28QueuedFrame(s, w *c28Cmd) *protocol.Frame {
	q := &protocol.QueuedState{}
	if s != nil {
		q.SleepCmd = s.sleepCmd()
	}
	if w != nil {
		q.WakeCmd = w.wakeCmd()
	}
	return &protocol.Frame{Type: protocol.FrameQueuedState, StreamID: protocol.ControlStreamID, Payload: q.Encode()}
}

// c28RxTuples turns received frames into signed-content tuples of the sleep/wake commands
// they carry (a QUEUED_STATE frame may carry two).
func c28RxTuples(rx []c28Rx) []string {
	var out []string
	add := func(o identity.AgentID, id, ts uint64, sig [protocol.SignatureSize]byte) {
		c := &c28Cmd{Origin: o, ID: id, TS: ts, Sig: sig}
		out = append(out, c.tuple())
	}
	for _, fr := range rx {
		switch fr.Type {
		case protocol.FrameSleepCommand:
			if d, err := protocol.DecodeSleepCommand(fr.Payload); err == nil {
				add(d.OriginAgent, d.CommandID, d.Timestamp, d.Signature)
			} else {
				out = append(out, "undecodable-sleep")
			}
		case protocol.FrameWakeCommand:
			if d, err := protocol.DecodeWakeCommand(fr.Payload); err == nil {
				add(d.OriginAgent, d.CommandID, d.Timestamp, d.Signature)
			} else {
				out = append(out, "undecodable-wake")
			}
		case protocol.FrameQueuedState:
			if q, err := protocol.DecodeQueuedState(fr.Payload); err == nil {
				if q.SleepCmd != nil {
					add(q.SleepCmd.OriginAgent, q.SleepCmd.CommandID, q.SleepCmd.Timestamp, q.SleepCmd.Signature)
				}
				if q.WakeCmd != nil {
					add(q.WakeCmd.OriginAgent, q.WakeCmd.CommandID, q.WakeCmd.Timestamp, q.WakeCmd.Signature)
				}
			}
		}
	}
	return out
}

func c28SeenBy(rng *verifkit.Rand, h *c28Rig, allowLocal bool) []identity.AgentID {
	if rng.Chance(1, 3) {
		return c28LongSeenBy(rng)
	}
	var out []identity.AgentID
	n := rng.Intn(3)
	for i := 0; i < n; i++ {
		switch rng.Intn(4) {
		case 0:
			out = append(out, c28ID(rng))
		case 1:
			out = append(out, h.ids[0])
		case 2:
			if allowLocal {
				out = append(out, h.a.ID())
			}
		}
	}
	return out
}

// c28LongSeenBy returns a SeenBy list of hostile length (the list is not covered by the
// signature and is fully controlled by the sending peer) made of arbitrary agent ids.
func c28LongSeenBy(rng *verifkit.Rand) []identity.AgentID {
	n := verifkit.Pick(rng, []int{1, 2, 50, 120, 200, 255})
	out := make([]identity.AgentID, n)
	for i := range out {
		out[i] = c28ID(rng)
	}
	return out
}

// c28KeyFamily is c28Family plus a marker for hostile unsigned header fields, so that a
// failure that depends on them gets a key of its own.
func c28KeyFamily(c *c28Cmd) string {
	f := c28Family(c.Class)
	if len(c.SeenBy) >= 50 {
		f += "+long-seenby"
	}
	return f
}
