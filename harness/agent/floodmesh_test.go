package agent

// floodmesh — helpers shared by the agent-level parts of C12 and C13: small meshes of real
// agents (meshkit) in which EVERY node is an exit for its own loopback /32, an echo listener
// as destination, and a wait for route convergence.

import (
	"context"
	"fmt"
	"io"
	"net"
	"time"

	"github.com/postalsys/muti-metroo/internal/config"
	"github.com/postalsys/muti-metroo/internal/verifkit"
)

type fmTopo struct {
	Name  string
	N     int
	Edges [][2]int // {dialer, listener}
}

var fmTopos = []fmTopo{
	{"chain5", 5, [][2]int{{0, 1}, {1, 2}, {2, 3}, {3, 4}}},
	{"diamond", 4, [][2]int{{0, 1}, {0, 2}, {1, 3}, {2, 3}}},
	{"ring5", 5, [][2]int{{0, 1}, {1, 2}, {2, 3}, {3, 4}, {0, 4}}},
	{"star-tail", 5, [][2]int{{0, 1}, {0, 2}, {0, 3}, {3, 4}}},
}

// fmExitIP is the loopback address only node i is an exit for.
func fmExitIP(i int) string { return fmt.Sprintf("127.0.%d.1", 10+i) }

func fmDist(t fmTopo, from int) []int {
	d := make([]int, t.N)
	for i := range d {
		d[i] = -1
	}
	d[from] = 0
	qu := []int{from}
	for len(qu) > 0 {
		x := qu[0]
		qu = qu[1:]
		for _, e := range t.Edges {
			for _, p := range [][2]int{{e[0], e[1]}, {e[1], e[0]}} {
				if p[0] == x && d[p[1]] < 0 {
					d[p[1]] = d[x] + 1
					qu = append(qu, p[1])
				}
			}
		}
	}
	return d
}

// fmBuild starts the mesh and waits (watchdog only) until every node has a route to every
// other node's /32 whose origin is that node and whose next hop is connected.
func fmBuild(r *verifkit.R, t fmTopo) *mkMesh {
	spec := mkSpec{Edges: t.Edges}
	for i := 0; i < t.N; i++ {
		spec.Names = append(spec.Names, fmt.Sprintf("%s-%d", t.Name, i))
	}
	spec.Cfg = func(i int, c *config.Config) {
		c.Exit.Enabled = true
		c.Exit.Routes = []string{fmExitIP(i) + "/32"}
		c.Exit.DomainRoutes = []string{fmt.Sprintf("*.n%d.verif.test", i)}
	}
	m, err := mkBuild(r.T, spec)
	if err != nil {
		r.Inconclusive("mesh " + t.Name + " did not come up: " + err.Error())
		return nil
	}
	for x := 0; x < t.N; x++ {
		for y := 0; y < t.N; y++ {
			if x == y {
				continue
			}
			if err := m.waitRoute(x, fmExitIP(y), y, 90*time.Second); err != nil {
				r.Inconclusive("route convergence watchdog: " + err.Error())
				m.stop()
				return nil
			}
		}
	}
	return m
}

// fmIdle reports whether no tunnel is live anywhere in the mesh: relay tables, stream manager
// and exit handler of every agent are empty. (Tunnels of different connections that carry the
// same stream id disturb each other — the C16/C17 finding — so a stream is only opened, and
// judged, when the previous one is completely gone.)
func fmIdle(m *mkMesh) bool {
	for _, n := range m.nodes {
		a := n.a
		a.tcpRelay.mu.RLock()
		busy := len(a.tcpRelay.byUpstream) + len(a.tcpRelay.byDownstream)
		a.tcpRelay.mu.RUnlock()
		a.exitHandlerMu.Lock()
		eh := a.exitHandler
		a.exitHandlerMu.Unlock()
		if eh != nil && eh.ConnectionCount() != 0 {
			busy++
		}
		if busy != 0 || a.streamMgr.StreamCount() != 0 || a.streamMgr.PendingCount() != 0 {
			return false
		}
	}
	return true
}

// fmSettle waits (watchdog only) until fmIdle.
func fmSettle(m *mkMesh, maxWait time.Duration) bool {
	deadline := time.Now().Add(maxWait)
	for !fmIdle(m) {
		if time.Now().After(deadline) {
			return false
		}
		time.Sleep(5 * time.Millisecond)
	}
	return true
}

// fmEcho is a TCP echo listener on all loopback addresses.
type fmEcho struct {
	ln   net.Listener
	port int
}

func fmStartEcho() (*fmEcho, error) {
	ln, err := net.Listen("tcp4", "0.0.0.0:0")
	if err != nil {
		return nil, err
	}
	e := &fmEcho{ln: ln, port: ln.Addr().(*net.TCPAddr).Port}
	go func() {
		for {
			c, err := ln.Accept()
			if err != nil {
				return
			}
			go func() {
				defer c.Close()
				io.Copy(c, c)
			}()
		}
	}()
	return e, nil
}

// fmDialEcho dials ip:port from node x through the agent's own Dial, sends a canary and reads
// it back. Returns (meshed, outcome): outcome "" = echoed; "watchdog: ..." = no verdict.
func fmDialEcho(m *mkMesh, x int, ip string, port int, canary string) (bool, string) {
	ctx, cancel := context.WithTimeout(context.Background(), 60*time.Second)
	defer cancel()
	conn, err := m.nodes[x].a.DialContext(ctx, "tcp", fmt.Sprintf("%s:%d", ip, port))
	if err != nil {
		if ctx.Err() != nil {
			return false, "watchdog: dial did not finish within 60 s"
		}
		return false, "dial error: " + err.Error()
	}
	defer conn.Close()
	_, meshed := conn.(*meshConn)
	done := make(chan string, 1)
	go func() {
		if _, err := conn.Write([]byte(canary)); err != nil {
			done <- "write error: " + err.Error()
			return
		}
		buf := make([]byte, len(canary))
		if _, err := io.ReadFull(conn, buf); err != nil {
			done <- "read error: " + err.Error()
			return
		}
		if string(buf) != canary {
			done <- fmt.Sprintf("echo differs: sent %q got %q", canary, buf)
			return
		}
		done <- ""
	}()
	select {
	case out := <-done:
		return meshed, out
	case <-time.After(60 * time.Second):
		return meshed, "watchdog: echo not received within 60 s"
	}
}
