package agent

// C02 (agent level) — no (key, nonce) pair is ever sealed twice, whichever end sends, on the
// real code paths of every tunnel kind. The crypto tap logs (key fingerprint, nonce) of every
// Encrypt call of every agent in the mesh; both ends of a tunnel share the key, so an end that
// was created with the wrong role (or a counter that restarts) shows as a duplicate.

import (
	"context"
	"fmt"
	"io"
	"net"
	"os"
	"path/filepath"
	"sync"
	"sync/atomic"
	"testing"
	"time"

	"github.com/postalsys/muti-metroo/internal/health"
	"github.com/postalsys/muti-metroo/internal/protocol"
	"github.com/postalsys/muti-metroo/internal/verifkit"
)

func TestVerif_C02_Mesh(t *testing.T) {
	r := verifkit.Start(t, "C02", "mesh")
	if !mkHooksPresent() {
		r.Inconclusive("crypto tap hooks not compiled in (build tag verif)")
		return
	}
	r.Rule("ingress-transit-exit of real agents; per scenario bidirectional TCP and forward tunnels, shell commands with stdin and stdout, file upload and download, and SOCKS5 UDP datagrams with echoes; " +
		"every Encrypt call of every agent is logged as (key fingerprint, nonce); oracle: no pair occurs twice; non-trivial = scenario with >= 100 seals under >= 5 keys; distinct by scenario plan")
	work, err := os.MkdirTemp("", "verif-c02-")
	if err != nil {
		r.Inconclusive(err.Error())
		return
	}
	defer os.RemoveAll(work)
	r.Cases("mesh", r.N(2, 12), func(ci int, rng *verifkit.Rand) {
		dest, err := mkStartDest()
		if err != nil {
			r.Inconclusive(err.Error())
			return
		}
		defer dest.close()
		echo, err := mkStartUDPEcho()
		if err != nil {
			r.Inconclusive(err.Error())
			return
		}
		defer echo.pc.Close()
		ct := mkInstallCryptoTap(true)
		defer ct.close()
		m, err := c03Mesh(t, 3, dest, work+"/**")
		if err != nil {
			r.Inconclusive("mesh did not come up: " + err.Error())
			return
		}
		defer m.stop()
		ing, exit := m.nodes[0].a, m.nodes[2].a
		src := filepath.Join(work, fmt.Sprintf("c02-%d.bin", ci))
		os.WriteFile(src, c07Pattern(int64(40000+rng.Intn(60000)), uint64(ci)+7), 0o600)
		done := 0
		for k := 0; k < rng.Range(2, 4); k++ {
			p := mkTunnelPlan{ID: uint64(ci)<<20 + uint64(k) + 1, Ingress: 0, Via: "tcp", Dest: fmt.Sprintf("127.1.0.%d:%d", 10+k, dest.port),
				C2S: int64(rng.Intn(120000)), S2C: int64(rng.Intn(120000)), Mode: mkModeOrderly, Chunk: []int{100, 4096, 16356, 65536}[rng.Intn(4)]}
			if cs := mkRunTunnel(m, p, 30*time.Second); cs.DialErr == "" && cs.SawEOF {
				done++
			}
			p.ID += 100
			p.Via = "forward:fwd-exit"
			if cs := mkRunTunnel(m, p, 30*time.Second); cs.DialErr == "" && cs.SawEOF {
				done++
			}
			in := c07Pattern(int64(1+rng.Intn(50000)), uint64(k)+50)
			if out, _, etext, _ := c07Shell(m, "head", []string{"-c", fmt.Sprint(len(in))}, [][]byte{in}, 30*time.Second); etext == "" && len(out) == len(in) {
				done++
			}
			ctx, cancel := context.WithTimeout(context.Background(), 30*time.Second)
			if ing.UploadFile(ctx, exit.ID(), src, filepath.Join(work, fmt.Sprintf("c02-up-%d-%d", ci, k)), health.TransferOptions{}, nil) == nil {
				done++
			}
			if ing.DownloadFile(ctx, exit.ID(), src, filepath.Join(work, fmt.Sprintf("c02-down-%d-%d", ci, k)), health.TransferOptions{}, nil) == nil {
				done++
			}
			cancel()
		}
		// UDP associations, with an adversarial relay that duplicates every *_OPEN_ACK it
		// carries (a duplicate ack must not restart a session's nonce sequence under the same key)
		{
			tap := mkInstallTap()
			tap.mu.Lock()
			tap.onPayload = func(ev *mkFrameEv, payload []byte) {
				if ev.Write || ev.Local != ing.ID() {
					return
				}
				if ev.Type != protocol.FrameUDPOpenAck && ev.Type != protocol.FrameStreamOpenAck {
					return
				}
				f := &protocol.Frame{Type: ev.Type, StreamID: ev.StreamID, Payload: append([]byte(nil), payload...)}
				from := ev.Remote
				go func() {
					time.Sleep(30 * time.Millisecond) // after the first datagrams went out
					if n, ok := m.byID[from]; ok {
						n.a.peerMgr.SendToPeer(ing.ID(), f)
					}
				}()
			}
			tap.mu.Unlock()
			for k := 0; k < rng.Range(2, 4); k++ {
				ctx, cancel := context.WithTimeout(context.Background(), 15*time.Second)
				sid, err := ing.CreateUDPAssociation(ctx, &net.UDPAddr{IP: net.IPv4(127, 0, 0, 1), Port: 5000 + k})
				if err == nil {
					for d := 0; d < 12; d++ {
						ip := []byte{127, 1, 5, byte(1 + k)}
						if ing.RelayUDPDatagram(sid, &net.UDPAddr{IP: net.IP(ip), Port: echo.port}, uint16(echo.port), protocol.AddrTypeIPv4, ip, rng.Bytes(1+rng.Intn(600))) == nil {
							r.Add("mesh_udp_datagrams_relayed", 1)
						}
						time.Sleep(10 * time.Millisecond)
					}
					ing.CloseUDPAssociation(sid)
				}
				cancel()
			}
			tap.close()
		}
		// Tunnels whose OPEN is delivered to the exit more than once (a relay that duplicates or
		// replays the open): every connection the exit makes for them talks first (banner server),
		// so the exit seals data for the original and for each duplicate. Whatever keys the exit
		// derives for the copies, no (key, nonce) pair may repeat.
		{
			bl, err := net.Listen("tcp", "0.0.0.0:0")
			if err == nil {
				bport := bl.Addr().(*net.TCPAddr).Port
				var bconns atomic.Int64
				go func() {
					for {
						c, err := bl.Accept()
						if err != nil {
							return
						}
						n := bconns.Add(1)
						go func(c net.Conn, n int64) {
							defer c.Close()
							line := []byte(fmt.Sprintf("banner of connection %d ........................................\n", n))
							for i := 0; i < 40; i++ {
								if _, err := c.Write(line); err != nil {
									return
								}
								time.Sleep(2 * time.Millisecond)
							}
						}(c, n)
					}
				}()
				tap := mkInstallTap()
				var dmu sync.Mutex
				copies := map[string]int{}
				tap.mu.Lock()
				tap.onPayload = func(ev *mkFrameEv, payload []byte) {
					if ev.Write || ev.Local != exit.ID() || (ev.Type != protocol.FrameStreamOpen && ev.Type != protocol.FrameUDPOpen) {
						return
					}
					k := fmt.Sprintf("%d/%d/%x", ev.Type, ev.StreamID, payload[:min(len(payload), 48)])
					dmu.Lock()
					copies[k]++
					again := copies[k] <= 2 // the original and one copy each trigger one more delivery: 3 in total
					dmu.Unlock()
					if !again {
						return
					}
					f := &protocol.Frame{Type: ev.Type, StreamID: ev.StreamID, Payload: append([]byte(nil), payload...)}
					from := ev.Remote
					go func() {
						time.Sleep(15 * time.Millisecond)
						if n, ok := m.byID[from]; ok {
							n.a.peerMgr.SendToPeer(exit.ID(), f)
						}
					}()
				}
				tap.mu.Unlock()
				for k := 0; k < rng.Range(2, 4); k++ {
					ctx, cancel := context.WithTimeout(context.Background(), 10*time.Second)
					conn, err := ing.DialContext(ctx, "tcp", fmt.Sprintf("127.1.7.%d:%d", 1+k, bport))
					cancel()
					if err != nil {
						continue
					}
					conn.SetDeadline(time.Now().Add(3 * time.Second))
					io.Copy(io.Discard, conn)
					conn.Close()
					r.Add("mesh_tunnels_with_duplicated_open", 1)
				}
				for k := 0; k < 2; k++ {
					ctx, cancel := context.WithTimeout(context.Background(), 10*time.Second)
					sid, err := ing.CreateUDPAssociation(ctx, &net.UDPAddr{IP: net.IPv4(127, 0, 0, 1), Port: 5100 + k})
					if err == nil {
						for d := 0; d < 8; d++ {
							ip := []byte{127, 1, 6, byte(1 + k)}
							ing.RelayUDPDatagram(sid, &net.UDPAddr{IP: net.IP(ip), Port: echo.port}, uint16(echo.port), protocol.AddrTypeIPv4, ip, rng.Bytes(1+rng.Intn(300)))
							time.Sleep(10 * time.Millisecond)
						}
						ing.CloseUDPAssociation(sid)
						r.Add("mesh_udp_associations_with_duplicated_open", 1)
					}
					cancel()
				}
				time.Sleep(200 * time.Millisecond)
				tap.close()
				bl.Close()
				r.Add("mesh_exit_connections_for_duplicated_opens", int(bconns.Load()))
			}
		}
		ct.mu.Lock()
		seals, keys := ct.nSeals, map[[8]byte]bool{}
		for k := range ct.seals {
			var fp [8]byte
			copy(fp[:], k[:8])
			keys[fp] = true
		}
		dups := append([]string(nil), ct.dups...)
		ct.mu.Unlock()
		for _, d := range dups {
			r.Violation("mesh:nonce-reused", "mesh", ci, "the same (session key, nonce) pair was sealed twice on real tunnel code paths: "+d, nil)
		}
		r.Add("mesh_seals_observed", int(seals))
		r.Add("mesh_keys_observed", len(keys))
		r.Add("mesh_transfers_completed", done)
		r.Eval(fmt.Sprintf("mesh/%d/%d/%d", ci, seals, len(keys)), seals >= 100 && len(keys) >= 5)
		if r.NeedSample() {
			r.Sample(map[string]any{"seals": seals, "keys": len(keys), "transfers_completed": done, "kinds": "tcp,forward,shell,file-upload,file-download,udp(with duplicated acks)"})
		}
	})
	r.Require("mesh_seals_observed", 300)
}
