package agent

// C07 — frames never exceed the payload limit and stream bytes are re-assembled exactly.
//
// Real agents over loopback QUIC (ingress - transit - exit). The frame tap records the payload
// length of every frame any agent writes (oracle: <= 16384). Each data path moves application
// data of boundary sizes and the far end must receive byte-identical data:
//   tcp/forward (both directions, single big writes and split writes), shell stdout, shell
//   stdin, file upload, file download.

import (
	"bytes"
	"context"
	"crypto/sha256"
	"fmt"
	"io"
	"net"
	"os"
	"path/filepath"
	"sync"
	"sync/atomic"
	"testing"
	"time"

	"github.com/postalsys/muti-metroo/internal/config"
	"github.com/postalsys/muti-metroo/internal/health"
	"github.com/postalsys/muti-metroo/internal/protocol"
	"github.com/postalsys/muti-metroo/internal/shell"
	"github.com/postalsys/muti-metroo/internal/verifkit"
)

const c07Limit = 16384

type c07Oversize struct {
	mu    sync.Mutex
	first string
	count int
}

func (o *c07Oversize) hook(tap *mkTap) {
	tap.mu.Lock()
	prevKeep := tap.keep
	tap.keep = func(ft uint8) bool { return prevKeep(ft) }
	tap.onPayload = func(ev *mkFrameEv, payload []byte) {
		if ev.Write && len(payload) > c07Limit {
			o.mu.Lock()
			o.count++
			if o.first == "" {
				o.first = fmt.Sprintf("frame type 0x%02x with %d payload bytes", ev.Type, len(payload))
			}
			o.mu.Unlock()
		}
	}
	tap.mu.Unlock()
}

func c07Sizes(r *verifkit.R, rng *verifkit.Rand) []int64 {
	s := []int64{0, 1, 16355, 16356, 16357, 16383, 16384, 16385, 32712, 32713, 65536}
	if r.Quick() {
		s = append(s, 300000, 1<<20)
	} else {
		s = append(s, 300000, 1<<20, 8<<20)
	}
	for i := 0; i < r.N(3, 12); i++ {
		s = append(s, int64(rng.Intn(200000)))
	}
	return s
}

func c07Pattern(n int64, salt uint64) []byte {
	b := make([]byte, n)
	mkGen(salt, 3, 0, b)
	return b
}

// c07Mesh: chain of 3 with shell + file transfer enabled on the exit.
func c07Mesh(t testing.TB, dest *mkDest, allowed string) (*mkMesh, error) {
	spec := mkChain(3)
	spec.Cfg = func(i int, c *config.Config) {
		c.Connections.IdleThreshold = 30 * time.Second
		// every agent may act as file-transfer client (validation config) / server
		c.FileTransfer.Enabled = true
		c.FileTransfer.AllowedPaths = []string{allowed}
		if i == 2 {
			c.Exit.Enabled = true
			c.Exit.Routes = []string{"127.1.0.0/16"}
			c.Forward.Endpoints = []config.ForwardEndpoint{{Key: "fwd-exit", Target: fmt.Sprintf("127.0.0.1:%d", dest.port)}}
			c.Shell.Enabled = true
			c.Shell.Whitelist = []string{"*"}
		}
	}
	m, err := mkBuild(t, spec)
	if err != nil {
		return nil, err
	}
	if err := m.waitRoute(0, "127.1.0.1", 2, 60*time.Second); err != nil {
		m.stop()
		return nil, err
	}
	if err := m.waitForwardRoute(0, "fwd-exit", 60*time.Second); err != nil {
		m.stop()
		return nil, err
	}
	deadline := time.Now().Add(60 * time.Second)
	for {
		if _, _, _, err := m.nodes[0].a.findPathToAgent(m.nodes[2].a.ID()); err == nil {
			break
		}
		if time.Now().After(deadline) {
			m.stop()
			return nil, fmt.Errorf("no agent route from ingress to exit")
		}
		time.Sleep(50 * time.Millisecond)
	}
	return m, nil
}

// c07Shell runs a command on the exit through the mesh and returns its stdout bytes.
func c07Shell(m *mkMesh, cmd string, args []string, stdin [][]byte, watchdog time.Duration) (stdout []byte, exit int, errText string, timedOut bool) {
	ctx, cancel := context.WithTimeout(context.Background(), watchdog)
	defer cancel()
	sess, err := m.nodes[0].a.OpenShellStream(ctx, m.nodes[2].a.ID(), &shell.ShellMeta{Command: cmd, Args: args}, false)
	if err != nil {
		return nil, -1, "open: " + err.Error(), false
	}
	defer sess.Close()
	go func() {
		for _, chunk := range stdin {
			select {
			case sess.Send <- shell.EncodeMessage(shell.MsgStdin, chunk):
			case <-sess.Done:
				return
			case <-ctx.Done():
				return
			}
		}
	}()
	exit = -1
	handle := func(msg []byte) (done bool) {
		mt, payload, err := shell.DecodeMessage(msg)
		if err != nil {
			return false
		}
		switch mt {
		case shell.MsgStdout:
			stdout = append(stdout, payload...)
		case shell.MsgExit:
			if c, err := shell.DecodeExit(payload); err == nil {
				exit = int(c)
			}
			return true
		case shell.MsgError:
			errText = string(payload)
			return true
		}
		return false
	}
	for {
		select {
		case msg, ok := <-sess.Receive:
			if !ok {
				return stdout, exit, errText, false
			}
			if handle(msg) {
				return stdout, exit, errText, false
			}
		case <-sess.Done:
			for {
				select {
				case msg, ok := <-sess.Receive:
					if !ok || handle(msg) {
						return stdout, exit, errText, false
					}
				default:
					if errText == "" && exit < 0 {
						errText = "session ended without exit message"
					}
					return stdout, exit, errText, false
				}
			}
		case <-ctx.Done():
			return stdout, exit, "watchdog", true
		}
	}
}

func c07Diff(got, want []byte) string {
	if bytes.Equal(got, want) {
		return ""
	}
	n := len(got)
	if len(want) < n {
		n = len(want)
	}
	at := n
	for i := 0; i < n; i++ {
		if got[i] != want[i] {
			at = i
			break
		}
	}
	return fmt.Sprintf("got %d bytes, want %d; first difference at offset %d", len(got), len(want), at)
}

func TestVerif_C07(t *testing.T) {
	r := verifkit.Start(t, "C07", "mesh")
	if !mkHooksPresent() {
		r.Inconclusive("frame tap hooks not compiled in (build tag verif)")
		return
	}
	r.Rule("chain ingress-transit-exit of real agents; per data path (tcp, forward, shell stdout, shell stdin, file upload, file download) one transfer per size in {0,1,16355..16385,32712,32713,65536,300000,1 MiB,(8 MiB thorough)} + PRNG sizes, with single-call and split writes; " +
		"oracle: every frame written by any agent has <= 16384 payload bytes (frame tap) and the far end holds byte-identical data; non-trivial = transfer of >= 1 byte that completed; distinct by (path, size, chunking)")
	rng := r.CaseRand("sizes", 0)
	sizes := c07Sizes(r, rng)
	over := &c07Oversize{}

	// ---- tcp + forward through the shared scenario runner (byte-exact oracle of C16)
	var chain3 c16Topo
	for _, tp := range c16Topologies() {
		if tp.Name == "chain3" {
			chain3 = tp
		}
	}
	r.Cases("tcp", r.N(2, 6), func(ci int, crng *verifkit.Rand) {
		opts := c16Opts{OrderlyOnly: true, Sizes: sizes, TapHook: over.hook, ChunkWhole: ci%2 == 0}
		out, results, m, dest, tap := c16RunScenario(t, r, "tcp", ci, crng, chain3, len(sizes), 0, opts)
		if out == nil {
			return
		}
		m.stop()
		tap.close()
		dest.close()
		ok := 0
		for _, cs := range results {
			if cs.Meshed && cs.SawEOF && cs.Got == cs.Plan.S2C && cs.Got+cs.Sent > 0 {
				ok++
			}
			r.Eval(fmt.Sprintf("tcp/%s/%d/%d/%d", cs.Plan.Via, cs.Plan.C2S, cs.Plan.S2C, cs.Plan.Chunk), cs.Got+cs.Sent > 0)
		}
		r.Add("tcp_forward_transfers_completed", ok)
		r.Add("frames_tapped", int(out.Frames))
		if r.NeedSample() {
			r.Sample(map[string]any{"path": "tcp/forward", "plans": out.Plans[:min(4, len(out.Plans))], "max_frame_payload_seen": out.MaxPayload})
		}
	})

	// ---- a reader that pauses: the bytes that pile up while it is not reading must all still
	// arrive, in order (buffers may fill and apply backpressure, they must not drop data)
	r.Cases("paused-reader", 1, func(ci int, crng *verifkit.Rand) {
		dest, err := mkStartDest()
		if err != nil {
			r.Inconclusive(err.Error())
			return
		}
		defer dest.close()
		tap := mkInstallTap()
		defer tap.close()
		over.hook(tap)
		m, err := c16BuildMesh(t, chain3, dest, 30*time.Second)
		if err != nil {
			r.Inconclusive("mesh did not come up: " + err.Error())
			return
		}
		defer m.stop()
		var wg sync.WaitGroup
		plans := []mkTunnelPlan{
			{ID: 0x7001, Ingress: 0, Via: "tcp", Dest: fmt.Sprintf("127.1.7.1:%d", dest.port), C2S: 1000, S2C: 3 << 20, Mode: mkModeOrderly, Chunk: 1000, ReaderStallMs: r.N(7000, 12000)},
			{ID: 0x7002, Ingress: 0, Via: "forward:fwd-exit", C2S: 1000, S2C: 2 << 20, Mode: mkModeOrderly, Chunk: 1000, ReaderStallMs: r.N(6000, 11000), ReadBuf: 1000},
			// a normal tunnel on the same links meanwhile
			{ID: 0x7003, Ingress: 0, Via: "tcp", Dest: fmt.Sprintf("127.1.7.3:%d", dest.port), C2S: 50000, S2C: 50000, Mode: mkModeOrderly, Chunk: 4096},
		}
		res := make([]*mkClientSide, len(plans))
		for i := range plans {
			wg.Add(1)
			go func(i int) { defer wg.Done(); res[i] = mkRunTunnel(m, plans[i], 60*time.Second) }(i)
		}
		wg.Wait()
		for i, cs := range res[:2] {
			p := plans[i]
			switch {
			case cs.DialErr != "":
				r.Inconclusive("paused-reader: open failed: " + cs.DialErr)
			case cs.BadAt >= 0 || (cs.SawEOF && cs.Got != p.S2C):
				r.Violation("paused-reader:bytes-differ", "paused-reader", ci, fmt.Sprintf("%s tunnel whose reader paused %d ms: received %d of %d bytes, first wrong byte at offset %d, eof=%v err=%q", p.Via, p.ReaderStallMs, cs.Got, p.S2C, cs.BadAt, cs.SawEOF, cs.ReadErr), p)
			case cs.TimedOut:
				r.Inconclusive("paused-reader: watchdog")
			case !cs.SawEOF:
				r.Violation("paused-reader:stream-broken", "paused-reader", ci, fmt.Sprintf("%s tunnel whose reader paused %d ms ended with %q after %d of %d bytes", p.Via, p.ReaderStallMs, cs.ReadErr, cs.Got, p.S2C), p)
			default:
				r.Add("paused_reader_transfers_completed", 1)
			}
			r.Eval(fmt.Sprintf("paused/%s/%d", p.Via, p.S2C), true)
		}
		r.Add("frames_tapped", int(tap.nFrames.Load()))
	})

	// ---- destinations that speak first (banner protocols): the destination starts sending the
	// moment the exit connects, i.e. around the time the open is acknowledged, while other
	// tunnels keep the links busy. The client must receive the banner from its first byte.
	r.Cases("server-first", 1, func(ci int, crng *verifkit.Rand) {
		dest, err := mkStartDest()
		if err != nil {
			r.Inconclusive(err.Error())
			return
		}
		defer dest.close()
		const bannerLen = 40000
		banner := make([]byte, bannerLen)
		mkGen(0xBA55, 1, 0, banner)
		bl, err := net.Listen("tcp", "0.0.0.0:0")
		if err != nil {
			r.Inconclusive(err.Error())
			return
		}
		defer bl.Close()
		bport := bl.Addr().(*net.TCPAddr).Port
		go func() {
			for {
				c, err := bl.Accept()
				if err != nil {
					return
				}
				go func(c net.Conn) {
					defer c.Close()
					c.Write(banner)
					if tc, ok := c.(*net.TCPConn); ok {
						tc.CloseWrite()
					}
					c.SetReadDeadline(time.Now().Add(10 * time.Second))
					io.Copy(io.Discard, c) // until the client is done
				}(c)
			}
		}()
		tap := mkInstallTap()
		defer tap.close()
		over.hook(tap)
		c16ExtraCfg = func(i int, c *config.Config) {
			if i == 2 {
				c.Forward.Endpoints = append(c.Forward.Endpoints, config.ForwardEndpoint{Key: "fwd-banner", Target: fmt.Sprintf("127.0.0.1:%d", bport)})
			}
		}
		m, err := c16BuildMesh(t, chain3, dest, 30*time.Second)
		c16ExtraCfg = nil
		if err != nil {
			r.Inconclusive("mesh did not come up: " + err.Error())
			return
		}
		defer m.stop()
		if err := m.waitForwardRoute(0, "fwd-banner", 30*time.Second); err != nil {
			r.Inconclusive(err.Error())
			return
		}
		stop := make(chan struct{})
		var bulk sync.WaitGroup
		for i := 0; i < 4; i++ { // bulk tunnels keeping the exit -> ingress direction busy
			bulk.Add(1)
			go func(i int) {
				defer bulk.Done()
				for k := 0; ; k++ {
					select {
					case <-stop:
						return
					default:
					}
					mkRunTunnel(m, mkTunnelPlan{ID: 0x7100 + uint64(i)<<8 + uint64(k), Ingress: 0, Via: "tcp", Dest: fmt.Sprintf("127.1.8.%d:%d", 1+i, dest.port), C2S: 100, S2C: 2 << 20, Mode: mkModeOrderly, Chunk: 100}, 30*time.Second)
				}
			}(i)
		}
		total := r.N(240, 2400)
		var done, short, bad atomic.Int64
		var firstBad atomic.Value
		var dial sync.WaitGroup
		ing := m.nodes[0].a
		for w := 0; w < 8; w++ {
			dial.Add(1)
			go func(w int) {
				defer dial.Done()
				for k := 0; k < total/8; k++ {
					ctx, cancel := context.WithTimeout(context.Background(), 15*time.Second)
					var conn net.Conn
					var err error
					via := "tcp"
					if (w+k)%3 == 0 {
						via = "forward"
						conn, err = ing.DialForward(ctx, "fwd-banner")
					} else {
						conn, err = ing.DialContext(ctx, "tcp", fmt.Sprintf("127.1.9.%d:%d", 1+w, bport))
					}
					cancel()
					if err != nil {
						continue
					}
					conn.SetDeadline(time.Now().Add(15 * time.Second))
					got, rerr := io.ReadAll(io.LimitReader(conn, bannerLen+1))
					conn.Close()
					done.Add(1)
					if bytes.Equal(got, banner) {
						continue
					}
					if len(got) < bannerLen && bytes.Equal(got, banner[:len(got)]) && rerr != nil {
						short.Add(1) // cut short by an error: not a reassembly failure
						continue
					}
					bad.Add(1)
					firstBad.CompareAndSwap(nil, fmt.Sprintf("%s tunnel to a destination that sends a %d-byte banner on connect: received %d bytes, %s, read err=%v", via, bannerLen, len(got), c07Diff(got, banner), rerr))
				}
			}(w)
		}
		dial.Wait()
		close(stop)
		bulk.Wait()
		if v := firstBad.Load(); v != nil {
			r.Violation("server-first:bytes-differ", "server-first", ci, fmt.Sprintf("%d of %d banner connections received other bytes than the destination sent (4 bulk tunnels on the same links); first: %s", bad.Load(), done.Load(), v.(string)), nil)
		}
		r.Add("server_first_connections_verified", int(done.Load()-short.Load()))
		r.Add("server_first_connections_cut_short", int(short.Load()))
		r.Add("frames_tapped", int(tap.nFrames.Load()))
		r.Eval(fmt.Sprintf("server-first/%d", total), done.Load() >= int64(total/2))
	})

	// ---- shell and file transfer on one mesh
	r.Cases("shell-file", 1, func(ci int, crng *verifkit.Rand) {
		dest, err := mkStartDest()
		if err != nil {
			r.Inconclusive(err.Error())
			return
		}
		defer dest.close()
		tap := mkInstallTap()
		defer tap.close()
		over.hook(tap)
		work, err := os.MkdirTemp("", "verif-c07-")
		if err != nil {
			r.Inconclusive(err.Error())
			return
		}
		defer os.RemoveAll(work)
		m, err := c07Mesh(t, dest, work+"/**")
		if err != nil {
			r.Inconclusive("mesh did not come up: " + err.Error())
			return
		}
		defer m.stop()
		target := m.nodes[2].a.ID()
		wedged := false
		for si, n := range sizes {
			if wedged {
				r.Add("sizes_skipped_after_stall", 1)
				continue // a failed transfer may have wedged the link; later results would only repeat it
			}
			if n > 2<<20 {
				continue // shell/file paths: up to 1 MiB (8 MiB only on tcp)
			}
			want := c07Pattern(n, uint64(si)+100)
			src := filepath.Join(work, fmt.Sprintf("src-%d.bin", si))
			if err := os.WriteFile(src, want, 0o600); err != nil {
				r.Inconclusive(err.Error())
				return
			}
			// shell stdout: cat the file on the exit
			out, exit, etext, to := c07Shell(m, "cat", []string{src}, nil, 20*time.Second)
			if to {
				if time.Since(time.Unix(0, tap.lastData.Load())) < 5*time.Second {
					r.Inconclusive(fmt.Sprintf("shell stdout %d bytes: watchdog while frames still moving", n))
				} else {
										wedged = true
										r.Violation("shell-stdout:stalled", "shell-file", ci, fmt.Sprintf("`cat` of a %d-byte file through the mesh never completed (got %d bytes, mesh idle)", n, len(out)), nil)
				}
			} else if d := c07Diff(out, want); d != "" || etext != "" {
				wedged = true
				r.Violation("shell-stdout:bytes-differ", "shell-file", ci, fmt.Sprintf("stdout of `cat` of a %d-byte file: %s (exit=%d err=%q)", n, d, exit, etext), nil)
			} else {
				r.Add("shell_stdout_transfers_completed", 1)
			}
			r.Eval(fmt.Sprintf("shell-stdout/%d", n), n > 0)
			// shell stdin: head -c n reads exactly n bytes of stdin and echoes them
			if n > 0 {
				for _, whole := range []bool{true, false} {
					var chunks [][]byte
					if whole {
						chunks = [][]byte{want}
					} else {
						for off := int64(0); off < n; off += 5000 {
							end := off + 5000
							if end > n {
								end = n
							}
							chunks = append(chunks, want[off:end])
						}
					}
					out, exit, etext, to := c07Shell(m, "head", []string{"-c", fmt.Sprint(n)}, chunks, 15*time.Second)
					class := "split-writes"
					if whole {
						class = "single-write"
					}
					if to {
						if time.Since(time.Unix(0, tap.lastData.Load())) < 5*time.Second {
							r.Inconclusive(fmt.Sprintf("shell stdin %d bytes: watchdog while frames still moving", n))
						} else {
														wedged = true
														r.Violation("shell-stdin:"+class+":stalled", "shell-file", ci, fmt.Sprintf("%d bytes of stdin (%s) to `head -c`: never completed (got %d bytes back, mesh idle)", n, class, len(out)), nil)
						}
					} else if d := c07Diff(out, want); d != "" || etext != "" {
						wedged = true
						r.Violation("shell-stdin:"+class+":bytes-differ", "shell-file", ci, fmt.Sprintf("%d bytes of stdin (%s) echoed by `head -c`: %s (exit=%d err=%q)", n, class, d, exit, etext), nil)
					} else {
						r.Add("shell_stdin_transfers_completed", 1)
					}
					r.Eval(fmt.Sprintf("shell-stdin/%d/%v", n, whole), true)
				}
			}
			// file upload then download
			up := filepath.Join(work, fmt.Sprintf("up-%d.bin", si))
			ctx, cancel := context.WithTimeout(context.Background(), 40*time.Second)
			err := m.nodes[0].a.UploadFile(ctx, target, src, up, health.TransferOptions{}, nil)
			cancel()
			if err != nil {
				wedged = true
				r.Violation("file-upload:failed", "shell-file", ci, fmt.Sprintf("upload of %d bytes failed: %v", n, err), nil)
			} else if got, rerr := os.ReadFile(up); rerr != nil || !bytes.Equal(got, want) {
				wedged = true
				r.Violation("file-upload:bytes-differ", "shell-file", ci, fmt.Sprintf("uploaded %d bytes: %s (%v)", n, c07Diff(got, want), rerr), nil)
			} else {
				r.Add("file_uploads_completed", 1)
			}
			r.Eval(fmt.Sprintf("upload/%d", n), n > 0)
			down := filepath.Join(work, fmt.Sprintf("down-%d.bin", si))
			ctx, cancel = context.WithTimeout(context.Background(), 40*time.Second)
			err = m.nodes[0].a.DownloadFile(ctx, target, src, down, health.TransferOptions{}, nil)
			cancel()
			if err != nil {
				wedged = true
				r.Violation("file-download:failed", "shell-file", ci, fmt.Sprintf("download of %d bytes failed: %v", n, err), nil)
			} else if got, rerr := os.ReadFile(down); rerr != nil || !bytes.Equal(got, want) {
				wedged = true
				r.Violation("file-download:bytes-differ", "shell-file", ci, fmt.Sprintf("downloaded %d bytes: %s (%v)", n, c07Diff(got, want), rerr), nil)
			} else {
				r.Add("file_downloads_completed", 1)
			}
			r.Eval(fmt.Sprintf("download/%d", n), n > 0)
			os.Remove(up)
			os.Remove(down)
			if r.NeedSample() && n > 16000 {
				h := sha256.Sum256(want)
				r.Sample(map[string]any{"path": "shell+file", "size": n, "sha256": verifkit.Hex(h[:8])})
			}
		}
		r.Add("frames_tapped", int(tap.nFrames.Load()))
		r.Set("max_frame_payload_seen", tap.maxLen.Load())
	})
	over.mu.Lock()
	if over.count > 0 {
		r.Violation("frame-payload-exceeds-limit", "tap", 0, fmt.Sprintf("%d frames written with more than %d payload bytes; first: %s", over.count, c07Limit, over.first), nil)
	}
	over.mu.Unlock()
	_ = protocol.MaxPayloadSize
	r.Require("tcp_forward_transfers_completed", 8)
	r.Require("frames_tapped", 500)
}
