package agent

// UDP part of the agent-level checks (C16 isolation, C04 ciphertext-only, C17 bookkeeping):
// real SOCKS5 UDP ASSOCIATE clients on the ingress agents, a loopback UDP echo server as the
// destination, datagrams tagged with (association id, counter) behind the plaintext canary.

import (
	"bytes"
	"encoding/binary"
	"fmt"
	"io"
	"net"
	"sync"
	"sync/atomic"
	"testing"
	"time"

	"github.com/postalsys/muti-metroo/internal/config"
	"github.com/postalsys/muti-metroo/internal/protocol"
	"github.com/postalsys/muti-metroo/internal/verifhook"
	"github.com/postalsys/muti-metroo/internal/verifkit"
)

type mkUDPEcho struct {
	pc   *net.UDPConn
	port int
	mu   sync.Mutex
	got  int
}

func mkStartUDPEcho() (*mkUDPEcho, error) {
	pc, err := net.ListenUDP("udp4", &net.UDPAddr{IP: net.IPv4zero})
	if err != nil {
		return nil, err
	}
	e := &mkUDPEcho{pc: pc, port: pc.LocalAddr().(*net.UDPAddr).Port}
	go func() {
		buf := make([]byte, 65535)
		for {
			n, src, err := pc.ReadFromUDP(buf)
			if err != nil {
				return
			}
			e.mu.Lock()
			e.got++
			e.mu.Unlock()
			pc.WriteToUDP(buf[:n], src)
		}
	}()
	return e, nil
}

// mkStartUDPChatty: a UDP server that, once a source has sent it a datagram, keeps sending that
// source canary-carrying datagrams every few ms for `dur` (a server that is still talking when the
// client goes away).
func mkStartUDPChatty(dur time.Duration) (*mkUDPEcho, error) {
	pc, err := net.ListenUDP("udp4", &net.UDPAddr{IP: net.IPv4zero})
	if err != nil {
		return nil, err
	}
	e := &mkUDPEcho{pc: pc, port: pc.LocalAddr().(*net.UDPAddr).Port}
	go func() {
		buf := make([]byte, 65535)
		seen := map[string]bool{}
		for {
			_, src, err := pc.ReadFromUDP(buf)
			if err != nil {
				return
			}
			e.mu.Lock()
			e.got++
			e.mu.Unlock()
			if seen[src.String()] {
				continue
			}
			seen[src.String()] = true
			go func(src *net.UDPAddr) {
				end := time.Now().Add(dur)
				for i := 0; time.Now().Before(end); i++ {
					msg := []byte(fmt.Sprintf("%s late reply %06d from the server %s%s", mkCanary, i, mkUDPTag, mkCanary))
					if _, err := pc.WriteToUDP(msg, src); err != nil {
						return
					}
					time.Sleep(3 * time.Millisecond)
				}
			}(src)
		}
	}()
	return e, nil
}

type mkUDPClient struct {
	id    uint64
	ctl   net.Conn
	relay *net.UDPAddr
	sock  *net.UDPConn
	sent  map[uint64][]byte
	// results
	mu       sync.Mutex
	replies  int
	foreign  []string
	mangled  []string
	recvDone chan struct{}
}

func mkSocksUDPAssociate(socksAddr string, id uint64) (*mkUDPClient, error) {
	c, err := net.DialTimeout("tcp", socksAddr, 5*time.Second)
	if err != nil {
		return nil, err
	}
	c.SetDeadline(time.Now().Add(10 * time.Second))
	if _, err := c.Write([]byte{5, 1, 0}); err != nil {
		c.Close()
		return nil, err
	}
	rep := make([]byte, 2)
	if _, err := io.ReadFull(c, rep); err != nil || rep[1] != 0 {
		c.Close()
		return nil, fmt.Errorf("socks5 greeting: %v %x", err, rep)
	}
	if _, err := c.Write([]byte{5, 3, 0, 1, 0, 0, 0, 0, 0, 0}); err != nil {
		c.Close()
		return nil, err
	}
	r := make([]byte, 10)
	if _, err := io.ReadFull(c, r); err != nil || r[1] != 0 {
		c.Close()
		return nil, fmt.Errorf("udp associate refused: %v %x", err, r)
	}
	c.SetDeadline(time.Time{})
	relay := &net.UDPAddr{IP: net.IPv4(r[4], r[5], r[6], r[7]), Port: int(binary.BigEndian.Uint16(r[8:10]))}
	if relay.IP.IsUnspecified() {
		relay.IP = net.IPv4(127, 0, 0, 1)
	}
	sock, err := net.ListenUDP("udp4", &net.UDPAddr{IP: net.IPv4(127, 0, 0, 1)})
	if err != nil {
		c.Close()
		return nil, err
	}
	cl := &mkUDPClient{id: id, ctl: c, relay: relay, sock: sock, sent: map[uint64][]byte{}, recvDone: make(chan struct{})}
	go cl.recvLoop()
	return cl, nil
}

const mkUDPTag = "UDPTAG"

func (c *mkUDPClient) payload(counter uint64, size int, rng *verifkit.Rand) []byte {
	p := make([]byte, 0, 8+6+16+size)
	p = append(p, mkCanary...)
	p = append(p, mkUDPTag...)
	var b [16]byte
	binary.BigEndian.PutUint64(b[:8], c.id)
	binary.BigEndian.PutUint64(b[8:], counter)
	p = append(p, b[:]...)
	p = append(p, rng.Bytes(size)...)
	return p
}

func (c *mkUDPClient) send(dst net.IP, port int, counter uint64, size int, rng *verifkit.Rand) error {
	pl := c.payload(counter, size, rng)
	c.mu.Lock()
	c.sent[counter] = pl
	c.mu.Unlock()
	hdr := []byte{0, 0, 0, 1}
	hdr = append(hdr, dst.To4()...)
	hdr = append(hdr, byte(port>>8), byte(port))
	_, err := c.sock.WriteToUDP(append(hdr, pl...), c.relay)
	return err
}

func (c *mkUDPClient) recvLoop() {
	defer close(c.recvDone)
	buf := make([]byte, 65535)
	for {
		n, _, err := c.sock.ReadFromUDP(buf)
		if err != nil {
			return
		}
		if n < 10 {
			continue
		}
		pl := append([]byte(nil), buf[10:n]...) // IPv4 SOCKS5 UDP header is 10 bytes
		c.mu.Lock()
		c.replies++
		pre := len(mkCanary) + len(mkUDPTag)
		if len(pl) < pre+16 || !bytes.HasPrefix(pl, []byte(mkCanary+mkUDPTag)) {
			if len(c.mangled) < 3 {
				c.mangled = append(c.mangled, verifkit.Hex(pl[:min(len(pl), 40)]))
			}
		} else {
			id := binary.BigEndian.Uint64(pl[pre:])
			ctr := binary.BigEndian.Uint64(pl[pre+8:])
			if id != c.id {
				if len(c.foreign) < 3 {
					c.foreign = append(c.foreign, fmt.Sprintf("reply tagged for association %d counter %d", id, ctr))
				}
			} else if want, ok := c.sent[ctr]; !ok || !bytes.Equal(want, pl) {
				if len(c.mangled) < 3 {
					c.mangled = append(c.mangled, fmt.Sprintf("counter %d: payload differs from what was sent", ctr))
				}
			}
		}
		c.mu.Unlock()
	}
}

func (c *mkUDPClient) close() {
	c.ctl.Close()
	c.sock.Close()
	<-c.recvDone
}

type mkUDPTopo struct {
	Name      string
	Spec      mkSpec
	Ingresses []int
	Exit      int
	Prone     bool
}

func mkUDPTopos() []mkUDPTopo {
	return []mkUDPTopo{
		{Name: "udp-chain3", Spec: mkChain(3), Ingresses: []int{0}, Exit: 2},
		{Name: "udp-pair", Spec: mkChain(2), Ingresses: []int{0}, Exit: 1},
		{Name: "udp-chain4", Spec: mkChain(4), Ingresses: []int{0}, Exit: 3},
		{Name: "udp-two-ingress-shared-transit", Spec: mkSpec{Names: []string{"I1", "I2", "T", "E"}, Edges: [][2]int{{0, 2}, {1, 2}, {2, 3}}}, Ingresses: []int{0, 1}, Exit: 3, Prone: true},
		{Name: "udp-two-ingress-one-exit", Spec: mkSpec{Names: []string{"I1", "I2", "E"}, Edges: [][2]int{{0, 2}, {1, 2}}}, Ingresses: []int{0, 1}, Exit: 2, Prone: true},
	}
}

func mkUDPMesh(t testing.TB, tp mkUDPTopo, udpIdle time.Duration) (*mkMesh, error) {
	spec := tp.Spec
	isIngress := map[int]bool{}
	for _, i := range tp.Ingresses {
		isIngress[i] = true
	}
	spec.Cfg = func(i int, c *config.Config) {
		c.Connections.IdleThreshold = 30 * time.Second
		c.UDP.Enabled = true
		c.UDP.IdleTimeout = udpIdle
		if i == tp.Exit {
			c.Exit.Enabled = true
			c.Exit.Routes = []string{"0.0.0.0/0"}
		}
		if isIngress[i] {
			c.SOCKS5.Enabled = true
			c.SOCKS5.Address = "127.0.0.1:0"
		}
	}
	m, err := mkBuild(t, spec)
	if err != nil {
		return nil, err
	}
	for _, in := range tp.Ingresses {
		if err := m.waitRoute(in, "127.1.0.9", tp.Exit, 60*time.Second); err != nil {
			m.stop()
			return nil, err
		}
	}
	return m, nil
}

type mkUDPOutcome struct {
	Topo         string `json:"topology"`
	Associations int    `json:"associations"`
	Sent         int    `json:"datagrams_sent"`
	Replies      int    `json:"replies_received"`
	Collisions   int    `json:"id_sharing_associations"`
	Class        string `json:"class"`
}

// mkRunUDPScenario opens nAssoc associations per ingress, exchanges datagrams with the echo
// server through the mesh, and leaves the clients OPEN (caller closes them).
func mkRunUDPScenario(m *mkMesh, tp mkUDPTopo, echo *mkUDPEcho, rng *verifkit.Rand, nAssoc, nDatagrams int, base uint64) ([]*mkUDPClient, *mkUDPOutcome, error) {
	var clients []*mkUDPClient
	for k := 0; k < nAssoc; k++ {
		in := tp.Ingresses[k%len(tp.Ingresses)]
		addr := m.nodes[in].a.SOCKS5Address()
		if addr == nil {
			return clients, nil, fmt.Errorf("ingress %s has no SOCKS5 listener", m.nodes[in].name)
		}
		c, err := mkSocksUDPAssociate(addr.String(), base+uint64(k)+1)
		if err != nil {
			return clients, nil, err
		}
		clients = append(clients, c)
	}
	out := &mkUDPOutcome{Topo: tp.Name, Associations: len(clients)}
	var wg sync.WaitGroup
	for _, c := range clients {
		wg.Add(1)
		crng := rng.Fork()
		go func(c *mkUDPClient) {
			defer wg.Done()
			for d := 0; d < nDatagrams; d++ {
				dst := net.IPv4(127, 1, byte(1+crng.Intn(3)), byte(1+crng.Intn(200)))
				size := []int{0, 1, 100, 500, 1200, 1400}[crng.Intn(6)]
				c.send(dst, echo.port, uint64(d), size, crng)
				time.Sleep(time.Duration(200+crng.Intn(1500)) * time.Microsecond)
			}
		}(c)
	}
	wg.Wait()
	// give replies a moment (loss is tolerated: nothing is judged on how many arrive)
	deadline := time.Now().Add(1500 * time.Millisecond)
	for time.Now().Before(deadline) {
		tot := 0
		for _, c := range clients {
			c.mu.Lock()
			tot += c.replies
			c.mu.Unlock()
		}
		if tot >= len(clients)*nDatagrams {
			break
		}
		time.Sleep(20 * time.Millisecond)
	}
	for _, c := range clients {
		c.mu.Lock()
		out.Sent += len(c.sent)
		out.Replies += c.replies
		c.mu.Unlock()
	}
	return clients, out, nil
}

// mkUDPBook: UDP bookkeeping of one agent.
type mkUDPBook struct {
	RelayUp, RelayDown int
	ExitAssoc          int
	IngressBase        int
	IngressLocal       int
}

func mkUDPBookOf(a *Agent) mkUDPBook {
	var b mkUDPBook
	a.udpRelay.mu.RLock()
	b.RelayUp, b.RelayDown = len(a.udpRelay.byUpstream), len(a.udpRelay.byDownstream)
	a.udpRelay.mu.RUnlock()
	if a.udpHandler != nil {
		b.ExitAssoc = a.udpHandler.ActiveCount()
	}
	a.udpIngressMu.RLock()
	b.IngressBase, b.IngressLocal = len(a.udpIngressByBase), len(a.udpIngressByLocalStream)
	a.udpIngressMu.RUnlock()
	return b
}

func mkUDPSettle(nodes []*mkNode, maxWait, stableFor time.Duration) (last []mkUDPBook, zero bool, unchanged time.Duration) {
	start := time.Now()
	lastChange := start
	for {
		cur := make([]mkUDPBook, len(nodes))
		allZero := true
		for i, n := range nodes {
			cur[i] = mkUDPBookOf(n.a)
			if cur[i] != (mkUDPBook{}) {
				allZero = false
			}
		}
		if last != nil {
			for i := range cur {
				if cur[i] != last[i] {
					lastChange = time.Now()
				}
			}
		}
		last = cur
		if allZero {
			return last, true, 0
		}
		if time.Since(lastChange) >= stableFor || time.Since(start) > maxWait {
			return last, false, time.Since(lastChange)
		}
		time.Sleep(25 * time.Millisecond)
	}
}

// ------------------------------------------------------------------ C16 (UDP isolation)

func TestVerif_C16_UDP(t *testing.T) {
	r := verifkit.Start(t, "C16", "mesh-udp")
	if !mkHooksPresent() {
		r.Inconclusive("frame tap hooks not compiled in (build tag verif)")
		return
	}
	r.Rule("scenario = topology x 1..8 concurrent SOCKS5 UDP associations (real UDP ASSOCIATE clients on the ingress agents) exchanging tagged datagrams with a loopback echo server through the mesh; " +
		"oracle: every datagram a client receives carries its own association tag and equals what it sent (loss tolerated, never judged); non-trivial = scenario with >= 2 associations that each received >= 1 reply; distinct by (topology, association count, datagram count)")
	topos := mkUDPTopos()
	run := func(phase string, prone bool, n int) {
		var tps []mkUDPTopo
		for _, tp := range topos {
			if tp.Prone == prone {
				tps = append(tps, tp)
			}
		}
		r.Cases(phase, n, func(ci int, rng *verifkit.Rand) {
			tp := tps[ci%len(tps)]
			echo, err := mkStartUDPEcho()
			if err != nil {
				r.Inconclusive(err.Error())
				return
			}
			defer echo.pc.Close()
			tap := mkInstallTap()
			defer tap.close()
			m, err := mkUDPMesh(t, tp, 30*time.Second)
			if err != nil {
				r.Inconclusive(tp.Name + ": mesh did not come up: " + err.Error())
				return
			}
			defer m.stop()
			nAssoc := rng.Range(2, r.N(6, 12))
			clients, out, err := mkRunUDPScenario(m, tp, echo, rng, nAssoc, rng.Range(10, r.N(40, 150)), uint64(ci)<<16)
			defer func() {
				for _, c := range clients {
					c.close()
				}
			}()
			if err != nil {
				r.Inconclusive(tp.Name + ": " + err.Error())
				return
			}
			coll := mkCollisions(mkTraceTunnels(tap.snapshot()))
			out.Collisions, out.Class = len(coll), "clean"
			if len(coll) > 0 {
				out.Class = "collision"
			}
			withReplies := 0
			for _, c := range clients {
				c.mu.Lock()
				if c.replies > 0 {
					withReplies++
				}
				foreign, mangled := c.foreign, c.mangled
				c.mu.Unlock()
				key := func(sym string) string {
					if out.Class == "collision" {
						return "collision:tunnel-disturbed"
					}
					return "clean:udp-" + sym
				}
				if len(foreign) > 0 {
					r.Violation(key("reply-of-another-association"), phase, ci, fmt.Sprintf("topology %s: association %d received a datagram addressed to another association: %v", tp.Name, c.id, foreign), out)
				}
				if len(mangled) > 0 {
					r.Violation(key("payload-differs"), phase, ci, fmt.Sprintf("topology %s: association %d received a datagram that differs from what was sent: %v", tp.Name, c.id, mangled), out)
				}
			}
			r.Add("udp_associations", len(clients))
			r.Add("udp_datagrams_sent", out.Sent)
			r.Add("udp_replies_verified", out.Replies)
			r.Add("udp_scenarios_"+out.Class, 1)
			r.Eval(fmt.Sprintf("%s/%d/%d", tp.Name, len(clients), out.Sent), withReplies >= 2)
			if r.NeedSample() {
				r.Sample(out)
			}
		})
	}
	run("clean", false, r.N(4, 30))
	run("prone", true, r.N(2, 10))
	r.Require("udp_replies_verified", 50)
}

// ------------------------------------------------------------------ C04 (UDP ciphertext only)

func TestVerif_C04_UDP(t *testing.T) {
	r := verifkit.Start(t, "C04", "mesh-udp")
	if !mkHooksPresent() {
		r.Inconclusive("frame tap hooks not compiled in (build tag verif)")
		return
	}
	r.Rule("chain of 3 or 4 real agents; SOCKS5 UDP associations exchange canary-carrying datagrams with an echo server; every UDP_DATAGRAM frame payload on every inter-agent link is scanned for the canary; " +
		"non-trivial = scenario in which >= 10 UDP_DATAGRAM frames were scanned; distinct by (topology, associations, datagrams)")
	var tps []mkUDPTopo
	for _, tp := range mkUDPTopos() {
		if !tp.Prone && len(tp.Spec.Names) >= 3 {
			tps = append(tps, tp)
		}
	}
	r.Cases("scan", r.N(3, 20), func(ci int, rng *verifkit.Rand) {
		tp := tps[ci%len(tps)]
		echo, err := mkStartUDPEcho()
		if err != nil {
			r.Inconclusive(err.Error())
			return
		}
		defer echo.pc.Close()
		tap := mkInstallTap()
		defer tap.close()
		var mu sync.Mutex
		scanned, leaks := 0, []string{}
		tap.mu.Lock()
		tap.onPayload = func(ev *mkFrameEv, payload []byte) {
			if ev.Type != protocol.FrameUDPDatagram {
				return
			}
			mu.Lock()
			scanned++
			if (bytes.Contains(payload, []byte(mkCanary)) || bytes.Contains(payload, []byte(mkUDPTag))) && len(leaks) < 3 {
				leaks = append(leaks, fmt.Sprintf("%d-byte UDP_DATAGRAM payload (write=%v): %s", len(payload), ev.Write, verifkit.Hex(payload[:min(len(payload), 48)])))
			}
			mu.Unlock()
		}
		tap.mu.Unlock()
		m, err := mkUDPMesh(t, tp, 30*time.Second)
		if err != nil {
			r.Inconclusive(tp.Name + ": mesh did not come up: " + err.Error())
			return
		}
		defer m.stop()
		clients, out, err := mkRunUDPScenario(m, tp, echo, rng, rng.Range(1, 4), rng.Range(10, r.N(40, 120)), uint64(ci)<<16)
		for _, c := range clients {
			c.close()
		}
		if err != nil {
			r.Inconclusive(tp.Name + ": " + err.Error())
			return
		}
		// close-during-open: the exit's handling of UDP_OPEN is delayed (the tap callback runs in
		// the exit's read loop), the client sends its first datagram and drops its control
		// connection while the open handshake is still pending. Whatever the ingress does with
		// the queued datagram, it must not reach a link unsealed.
		exitID := m.nodes[tp.Exit].a.ID()
		var delayOpens atomic.Bool
		delayOpens.Store(true)
		tap.mu.Lock()
		scan := tap.onPayload
		tap.onPayload = func(ev *mkFrameEv, payload []byte) {
			if !ev.Write && ev.Local == exitID && ev.Type == protocol.FrameUDPOpen && delayOpens.Load() {
				time.Sleep(120 * time.Millisecond)
			}
			scan(ev, payload)
		}
		tap.mu.Unlock()
		for k := 0; k < r.N(4, 12); k++ {
			addr := m.nodes[tp.Ingresses[0]].a.SOCKS5Address()
			c, cerr := mkSocksUDPAssociate(addr.String(), uint64(ci)<<16|0x8000|uint64(k))
			if cerr != nil {
				continue
			}
			c.send(net.IPv4(127, 1, 9, byte(1+k)), echo.port, 0, 200, rng)
			time.Sleep(time.Duration(10+rng.Intn(60)) * time.Millisecond)
			c.close()
			r.Add("udp_closed_during_open", 1)
		}
		time.Sleep(400 * time.Millisecond) // let delayed opens and queued datagrams drain
		delayOpens.Store(false)
		// late replies: the destination is still sending when the association goes away (client
		// drops its control connection). (a) free-running: replies keep arriving at the exit for
		// more than a second after the close. (b) synchronised through the hook between the exit's
		// socket read and the seal: one reply has been read when the association is closed, and is
		// sealed (or not) only afterwards. Nothing of it may reach a link in the clear.
		{
			chatty, cerr := mkStartUDPChatty(1500 * time.Millisecond)
			if cerr == nil {
				exitA := m.nodes[tp.Exit].a
				var hookArmed atomic.Bool
				reached := make(chan struct{}, 8)
				var release atomic.Value // chan struct{} of the current round
				release.Store(make(chan struct{}))
				restore := verifhook.Set("udp.read_before_seal", func(args ...any) {
					if hookArmed.CompareAndSwap(true, false) {
						rel := release.Load().(chan struct{})
						reached <- struct{}{}
						select {
						case <-rel:
						case <-time.After(1500 * time.Millisecond):
						}
					}
				})
				for k := 0; k < r.N(4, 12); k++ {
					addr := m.nodes[tp.Ingresses[0]].a.SOCKS5Address()
					c, cerr := mkSocksUDPAssociate(addr.String(), uint64(ci)<<16|0x9000|uint64(k))
					if cerr != nil {
						continue
					}
					synced := k%2 == 1
					rel := make(chan struct{})
					release.Store(rel)
					if synced {
						hookArmed.Store(true)
					}
					c.send(net.IPv4(127, 1, 10, byte(1+k)), chatty.port, 0, 100, rng)
					if synced {
						select {
						case <-reached: // the exit holds a reply it has read and not yet sealed
							c.close()
							for i := 0; i < 200 && exitA.udpHandler != nil && exitA.udpHandler.ActiveCount() > 0; i++ {
								time.Sleep(5 * time.Millisecond)
							}
							if exitA.udpHandler != nil && exitA.udpHandler.ActiveCount() == 0 {
								r.Add("udp_reply_held_between_read_and_seal_across_close", 1)
							}
							close(rel)
						case <-time.After(3 * time.Second):
							hookArmed.Store(false)
							c.close()
						}
					} else {
						time.Sleep(time.Duration(20+rng.Intn(80)) * time.Millisecond)
						c.close()
						r.Add("udp_closed_while_server_still_sending", 1)
					}
					time.Sleep(150 * time.Millisecond)
				}
				time.Sleep(1200 * time.Millisecond) // the chatty server's tail
				restore()
				chatty.pc.Close()
			}
		}
		mu.Lock()
		for _, l := range leaks {
			r.Violation("plaintext-on-link:udp-datagram", "scan", ci, fmt.Sprintf("topology %s: a UDP_DATAGRAM frame on an inter-agent link carries application plaintext: %s", tp.Name, l), out)
		}
		r.Add("udp_datagram_frames_scanned", scanned)
		n := scanned
		mu.Unlock()
		r.Add("udp_replies_received", out.Replies)
		r.Eval(fmt.Sprintf("%s/%d/%d", tp.Name, out.Associations, out.Sent), n >= 10)
		if r.NeedSample() {
			r.Sample(out)
		}
	})
	r.Require("udp_datagram_frames_scanned", 100)
}

// ------------------------------------------------------------------ C17 (UDP bookkeeping)

func TestVerif_C17_UDP(t *testing.T) {
	r := verifkit.Start(t, "C17", "mesh-udp")
	if !mkHooksPresent() {
		r.Inconclusive("frame tap hooks not compiled in (build tag verif)")
		return
	}
	r.Rule("SOCKS5 UDP associations through real agents; endings: clients close (control connection closed), or the ingress agent disappears (agent stopped) while associations are open; " +
		"then the UDP bookkeeping of every remaining agent (relay indices, exit associations, ingress tables) is sampled until all-zero; udp idle timeout 2 s; " +
		"non-trivial = scenario where UDP bookkeeping was observed non-zero before the ending; distinct by (topology, ending, association count)")
	r.Assume("idle-timeout driven cleanup is given 9 s of unchanged bookkeeping (udp idle timeout 2 s) before stable non-zero is judged")
	var tps []mkUDPTopo
	for _, tp := range mkUDPTopos() {
		if !tp.Prone {
			tps = append(tps, tp)
		}
	}
	r.Cases("udp", r.N(6, 30), func(ci int, rng *verifkit.Rand) {
		tp := tps[ci%len(tps)]
		ending := []string{"clients-close", "ingress-agent-stops", "link-dies-at-open-ack"}[(ci/len(tps))%3]
		if len(tp.Spec.Names) < 3 && ending == "ingress-agent-stops" {
			ending = "clients-close"
		}
		echo, err := mkStartUDPEcho()
		if err != nil {
			r.Inconclusive(err.Error())
			return
		}
		defer echo.pc.Close()
		tap := mkInstallTap()
		defer tap.close()
		m, err := mkUDPMesh(t, tp, 2*time.Second)
		if err != nil {
			r.Inconclusive(tp.Name + ": mesh did not come up: " + err.Error())
			return
		}
		defer m.stop()
		if ending == "link-dies-at-open-ack" {
			// the exit's link to the requesting peer dies just before the exit writes a
			// UDP_OPEN_ACK (fault injected from the write tap): the association it has just
			// created for an open it cannot acknowledge must be released
			exit := m.nodes[tp.Exit].a
			var once sync.Once
			tap.mu.Lock()
			tap.onPayload = func(ev *mkFrameEv, payload []byte) {
				if ev.Write && ev.Local == exit.ID() && ev.Type == protocol.FrameUDPOpenAck {
					once.Do(func() {
						mkKillLinkFromTap(exit, ev.Remote)
					})
				}
			}
			tap.mu.Unlock()
		}
		clients, out, err := mkRunUDPScenario(m, tp, echo, rng, rng.Range(1, 5), rng.Range(5, 30), uint64(ci)<<16)
		if err != nil {
			for _, c := range clients {
				c.close()
			}
			r.Inconclusive(tp.Name + ": " + err.Error())
			return
		}
		peak := 0
		for _, n := range m.nodes {
			b := mkUDPBookOf(n.a)
			peak += b.RelayUp + b.RelayDown + b.ExitAssoc + b.IngressBase + b.IngressLocal
		}
		remaining := m.nodes
		if ending == "ingress-agent-stops" {
			m.nodes[0].a.Stop() // the ingress disappears with its associations open
			remaining = m.nodes[1:]
		}
		for _, c := range clients {
			c.close()
		}
		last, zero, unchanged := mkUDPSettle(remaining, 40*time.Second, 9*time.Second)
		r.Add("udp_scenarios", 1)
		r.Add("udp_peak_entries_seen", peak)
		r.Add("udp_ending_"+ending, 1)
		if !zero {
			if unchanged < 9*time.Second {
				r.Inconclusive(fmt.Sprintf("%s: UDP bookkeeping still changing when the settle watchdog fired: %+v", tp.Name, last))
			} else {
				desc := ""
				syms := map[string]bool{}
				for i, b := range last {
					if b == (mkUDPBook{}) {
						continue
					}
					desc += fmt.Sprintf("%s:%+v ", remaining[i].name, b)
					if b.RelayUp != 0 || b.RelayDown != 0 {
						syms["udp-relay-entries-remain"] = true
					}
					if b.ExitAssoc != 0 {
						syms["udp-exit-associations-remain"] = true
					}
					if b.IngressBase != 0 || b.IngressLocal != 0 {
						syms["udp-ingress-entries-remain"] = true
					}
				}
				for s := range syms {
					r.Violation("clean:"+ending+":"+s, "udp", ci, fmt.Sprintf("topology %s, ending %s, %d associations: UDP bookkeeping stayed non-zero and unchanged for %v: %s", tp.Name, ending, out.Associations, unchanged.Round(time.Second), desc), out)
				}
			}
		}
		r.Eval(fmt.Sprintf("%s/%s/%d", tp.Name, ending, out.Associations), peak > 0)
		if r.NeedSample() {
			r.Sample(map[string]any{"topology": tp.Name, "ending": ending, "associations": out.Associations, "peak_entries_seen": peak, "settled_all_zero": zero})
		}
	})
	r.Require("udp_peak_entries_seen", 4)
}
