package agent

// C15 (agent level) — routing.max_hops of the configuration bounds how far a real agent's
// route announcements travel.
//
// Chain of real agents over loopback QUIC (meshkit), every agent configured with
// routing.max_hops = k, node 0 an exit. Node 0 adds a fresh route (so that what is observed is
// the flooding of that announcement and nothing older), the harness waits until the direct
// neighbour holds it, then node 0 changes its display name, which floods a NODE_INFO
// advertisement (not hop-limited) down the same chain. Frames of one connection are processed
// in order and an agent forwards inside the handler, so once the far end of the chain shows
// the new display name, every agent has already processed (stored or dropped) the route
// announcement. Only then the tables are judged:
//   distance d <= k : the route and node 0's presence are held (the limit must not cut short),
//   distance d >  k : no route of node 0 and no presence of node 0 is held.
// No verdict depends on a timeout: the waits only guard against a hung mesh (inconclusive).

import (
	"fmt"
	"testing"
	"time"

	"github.com/postalsys/muti-metroo/internal/config"
	"github.com/postalsys/muti-metroo/internal/verifkit"
)

func c15AgentCase(r *verifkit.R, n, k, ci int) {
	spec := mkChain(n)
	spec.Cfg = func(i int, c *config.Config) {
		c.Routing.MaxHops = k
		if i == 0 {
			c.Exit.Enabled = true
			c.Exit.Routes = []string{"10.77.0.0/16"}
		}
	}
	m, err := mkBuild(r.T, spec)
	if err != nil {
		r.Inconclusive("mesh did not come up: " + err.Error())
		return
	}
	defer func() {
		if hung := m.stop(); len(hung) > 0 {
			r.Add("agents_hung_on_stop", len(hung))
		}
	}()
	origin := m.nodes[0].a
	id0 := origin.ID()
	fresh := fmt.Sprintf("10.78.%d.0/24", k)
	if _, err := origin.ManageRoute("add", fresh, 0); err != nil {
		r.Inconclusive("ManageRoute add failed: " + err.Error())
		return
	}
	holds := func(i int, cidr string) bool {
		for _, rt := range m.nodes[i].a.GetRoutes() {
			if rt.OriginAgent == id0 && rt.Network.String() == cidr {
				return true
			}
		}
		return false
	}
	knows := func(i int) bool {
		for _, id := range m.nodes[i].a.GetKnownAgentIDs() {
			if id == id0 {
				return true
			}
		}
		return false
	}
	// 1. the direct neighbour (distance 1 <= k) learns the fresh route
	deadline := time.Now().Add(60 * time.Second)
	for !holds(1, fresh) {
		if time.Now().After(deadline) {
			r.Inconclusive("direct neighbour never learned the fresh route (watchdog)")
			return
		}
		origin.TriggerRouteAdvertise() // what the periodic timer would do
		time.Sleep(25 * time.Millisecond)
	}
	// 2. marker: a NODE_INFO flood sent after that announcement, down the same FIFO chain
	marker := fmt.Sprintf("c15-marker-k%d-%d", k, ci)
	if _, err := origin.ManageDisplayName("set", marker); err != nil {
		r.Inconclusive("ManageDisplayName failed: " + err.Error())
		return
	}
	deadline = time.Now().Add(60 * time.Second)
	for {
		if ni := m.nodes[n-1].a.GetAllNodeInfo()[id0]; ni != nil && ni.DisplayName == marker {
			break
		}
		if time.Now().After(deadline) {
			r.Inconclusive("marker NODE_INFO never reached the far end of the chain (watchdog)")
			return
		}
		origin.TriggerNodeInfoAdvertise()
		time.Sleep(25 * time.Millisecond)
	}
	r.Add("markers_seen_at_far_end", 1)
	// 3. judge
	type row struct {
		Node, Distance  int
		Fresh, Initial  bool
		KnowsOrigin     bool
	}
	var rows []row
	vio := 0
	for i := 1; i < n; i++ {
		rw := row{Node: i, Distance: i, Fresh: holds(i, fresh), Initial: holds(i, "10.77.0.0/16"), KnowsOrigin: knows(i)}
		rows = append(rows, rw)
		if i <= k {
			r.Add("agents_within_limit", 1)
			if !rw.Fresh {
				vio++
				r.Violation("within-limit:route-missing", "agents", ci, fmt.Sprintf("routing.max_hops=%d: agent %d hops from the exit never stored the announced route %s", k, i, fresh), rows)
			}
			if !rw.KnowsOrigin {
				vio++
				r.Violation("within-limit:presence-missing", "agents", ci, fmt.Sprintf("routing.max_hops=%d: agent %d hops from the exit does not know it", k, i), rows)
			}
		} else {
			r.Add("agents_beyond_limit", 1)
			if rw.Fresh || rw.Initial {
				vio++
				r.Violation("beyond-limit:route-stored", "agents", ci, fmt.Sprintf("routing.max_hops=%d: agent %d hops from the exit stores its route (fresh=%v initial=%v)", k, i, rw.Fresh, rw.Initial), rows)
			}
			if rw.KnowsOrigin {
				vio++
				r.Violation("beyond-limit:presence-stored", "agents", ci, fmt.Sprintf("routing.max_hops=%d: agent %d hops from the exit holds its presence / a route of it", k, i), rows)
			}
		}
	}
	r.Eval(fmt.Sprintf("chain%d-k%d", n, k), k < n-1)
	if r.NeedSample() {
		r.Sample(map[string]any{"chain": n, "max_hops": k, "tables": rows})
	}
}

func TestVerif_C15Agents(t *testing.T) {
	r := verifkit.Start(t, "C15", "agents")
	r.Rule("one case = one chain of real agents (loopback QUIC) with routing.max_hops=k in every config; a fresh route announced by node 0 is followed by a NODE_INFO marker flood down the same FIFO chain, and when the marker is visible at the far end every agent's table is judged by its distance from node 0; " +
		"non-trivial = the chain is longer than the limit; distinct by (chain length, k)")
	type ck struct{ n, k int }
	cases := []ck{{5, 1}, {5, 2}}
	if !r.Quick() {
		cases = []ck{{5, 1}, {5, 2}, {5, 3}, {6, 4}, {4, 16}, {6, 2}}
	}
	for ci, c := range cases {
		if !r.Wanted("agents", ci) {
			continue
		}
		r.Mark("agents", ci)
		c15AgentCase(r, c.n, c.k, ci)
	}
	r.Require("markers_seen_at_far_end", int64(len(cases)))
	r.Require("agents_beyond_limit", 2)
}
