package agent

// C17 — tunnel bookkeeping returns to empty once tunnels and peers are gone.
//
// Same real-agent scenarios as C16, extended with open failures (closed destination port),
// abrupt closes from either end and link kills while tunnels are in flight. After every
// application end has finished, an invariant monitor samples the bookkeeping of every agent
// (relay table indices, exit / forward connection counters, stream table, pending opens) until
// it is all-zero. Stable non-zero bookkeeping is the violation; bookkeeping still shrinking when
// the watchdog fires is inconclusive.

import (
	"fmt"
	"os"
	"sync"
	"testing"
	"time"

	"github.com/postalsys/muti-metroo/internal/protocol"

	"github.com/postalsys/muti-metroo/internal/verifkit"
)

// mkBook is the bookkeeping snapshot of one agent (the only place that touches unexported state).
type mkBook struct {
	RelayUp, RelayDown       int
	UDPRelayUp, UDPRelayDown int
	ExitConns, FwdConns      int64
	Streams, Pending         int
	UDPAssoc                 int
	FileStreams              int
}

func (b mkBook) zero() bool { return b == mkBook{} }

func mkBookOf(a *Agent) mkBook {
	var b mkBook
	a.tcpRelay.mu.RLock()
	b.RelayUp, b.RelayDown = len(a.tcpRelay.byUpstream), len(a.tcpRelay.byDownstream)
	a.tcpRelay.mu.RUnlock()
	a.udpRelay.mu.RLock()
	b.UDPRelayUp, b.UDPRelayDown = len(a.udpRelay.byUpstream), len(a.udpRelay.byDownstream)
	a.udpRelay.mu.RUnlock()
	a.exitHandlerMu.Lock()
	eh := a.exitHandler
	a.exitHandlerMu.Unlock()
	if eh != nil {
		b.ExitConns = eh.ConnectionCount()
	}
	if a.forwardHandler != nil {
		b.FwdConns = a.forwardHandler.ConnectionCount()
	}
	b.Streams = a.streamMgr.StreamCount()
	b.Pending = a.streamMgr.PendingCount()
	if a.udpHandler != nil {
		b.UDPAssoc = a.udpHandler.ActiveCount()
	}
	a.fileStreamsMu.RLock()
	b.FileStreams = len(a.fileStreams)
	a.fileStreamsMu.RUnlock()
	return b
}

// c17Settle polls the bookkeeping of all agents until all-zero. Returns the last snapshot,
// whether it was all-zero, and for how long it had been unchanged.
func c17Settle(m *mkMesh, maxWait, stableFor time.Duration) (last []mkBook, zero bool, unchanged time.Duration, samples int) {
	start := time.Now()
	lastChange := start
	for {
		cur := make([]mkBook, len(m.nodes))
		allZero := true
		for i, n := range m.nodes {
			cur[i] = mkBookOf(n.a)
			if !cur[i].zero() {
				allZero = false
			}
		}
		samples++
		if last != nil {
			for i := range cur {
				if cur[i] != last[i] {
					lastChange = time.Now()
				}
			}
		}
		last = cur
		if allZero {
			return last, true, 0, samples
		}
		if time.Since(lastChange) >= stableFor && time.Since(start) >= stableFor {
			return last, false, time.Since(lastChange), samples
		}
		if time.Since(start) > maxWait {
			return last, false, time.Since(lastChange), samples
		}
		time.Sleep(25 * time.Millisecond)
	}
}

func c17LinkKiller(kills int) func(m *mkMesh, rng *verifkit.Rand) {
	return func(m *mkMesh, rng *verifkit.Rand) {
		for k := 0; k < kills; k++ {
			time.Sleep(time.Duration(5+rng.Intn(60)) * time.Millisecond)
			e := m.spec.Edges[rng.Intn(len(m.spec.Edges))]
			side := e[rng.Intn(2)]
			other := e[0] + e[1] - side
			mkKillLink(m.nodes[side].a, m.nodes[other].a.ID())
		}
	}
}

func TestVerif_C17(t *testing.T) {
	r := verifkit.Start(t, "C17", "mesh")
	if !mkHooksPresent() {
		r.Inconclusive("frame tap hooks not compiled in (build tag verif)")
		return
	}
	r.Rule("scenario = topology x PRNG history of concurrent tunnel opens (incl. opens to a closed port), orderly closes, abrupt closes from either end and link kills in flight, on real agents over loopback QUIC; " +
		"after all application ends finished the bookkeeping of every agent (relay indices, exit/forward connection counters, stream table, pending opens) is sampled until all-zero; " +
		"non-trivial = scenario in which bookkeeping was observed non-zero at least once before settling (i.e. entries were really created) ; distinct by (topology, plans, fault kind)")
	r.Assume("idle-timeout driven cleanup is given 4 x connections.idle_threshold (3 s) of unchanged bookkeeping before stable non-zero is judged")
	topos := c16Topologies()
	var clean, prone []c16Topo
	for _, tp := range topos {
		if tp.CollisionProne {
			prone = append(prone, tp)
		} else {
			clean = append(clean, tp)
		}
	}
	maxBytes := int64(r.N(60000, 400000))
	run := func(phase string, tps []c16Topo, n int) {
		r.Cases(phase, n, func(ci int, rng *verifkit.Rand) {
			tp := tps[ci%len(tps)]
			k := rng.Range(3, r.N(14, 40))
			opts := c16Opts{Idle: 3 * time.Second, RefusedPct: 20, SkipDataOracle: true, Watchdog: 8 * time.Second}
			fault := "none"
			if ci%3 == 2 && len(tp.Spec.Edges) > 0 {
				opts.Fault = c17LinkKiller(1 + rng.Intn(2))
				fault = "link-kill"
			}
			// monitor: sample bookkeeping while tunnels run, to know entries were really created
			peak := int64(0)
			stopMon := make(chan struct{})
			monDone := make(chan struct{})
			var mesh *mkMesh
			meshReady := make(chan struct{})
			go func() {
				defer close(monDone)
				select {
				case <-meshReady:
				case <-stopMon:
					return
				}
				for {
					select {
					case <-stopMon:
						return
					default:
					}
					var tot int64
					for _, n := range mesh.nodes {
						b := mkBookOf(n.a)
						tot += int64(b.RelayUp+b.RelayDown+b.Streams+b.Pending) + b.ExitConns + b.FwdConns
					}
					if tot > peak {
						peak = tot
					}
					time.Sleep(2 * time.Millisecond)
				}
			}()
			opts2 := opts
			userFault := opts.Fault
			opts2.Fault = func(m *mkMesh, frng *verifkit.Rand) {
				mesh = m
				close(meshReady)
				if userFault != nil {
					userFault(m, frng)
				}
			}
			t0 := time.Now()
			out, results, m, dest, tap := c16RunScenario(t, r, phase, ci, rng, tp, k, maxBytes, opts2)
			tRun := time.Since(t0)
			close(stopMon)
			<-monDone
			if out == nil {
				return
			}
			hungWriters := 0
			for _, cs := range results {
				if cs != nil && cs.WriterHung {
					hungWriters++
				}
			}
			r.Add("client_writes_never_returned", hungWriters)
			// every client side has returned (and closed its conn); now the mesh must drain.
			last, zero, unchanged, samples := c17Settle(m, 40*time.Second, 9*time.Second)
			r.Add("bookkeeping_samples", samples)
			r.Add("scenarios_"+out.Class, 1)
			r.Add("tunnels", out.Tunnels)
			r.Add("peak_entries_seen", int(peak))
			if fault != "none" {
				r.Add("scenarios_with_link_kill", 1)
			}
			if !zero {
				if unchanged < 9*time.Second {
					r.Inconclusive(fmt.Sprintf("%s: bookkeeping still changing when the settle watchdog fired: %+v", tp.Name, last))
				} else {
					desc := ""
					syms := map[string]bool{}
					for i, b := range last {
						if b.zero() {
							continue
						}
						desc += fmt.Sprintf("%s:%+v ", m.nodes[i].name, b)
						if b.RelayUp != 0 || b.RelayDown != 0 {
							syms["relay-entries-remain"] = true
						}
						if b.RelayUp != b.RelayDown {
							syms["relay-indices-disagree"] = true
						}
						if b.ExitConns != 0 {
							syms["exit-connection-count-nonzero"] = true
						}
						if b.FwdConns != 0 {
							syms["forward-connection-count-nonzero"] = true
						}
						if b.Streams != 0 || b.Pending != 0 {
							syms["stream-table-entries-remain"] = true
						}
					}
					for s := range syms {
						key := "clean:" + s
						if out.Class == "collision" {
							key = "collision:bookkeeping-leak"
						}
						r.Violation(key, phase, ci, fmt.Sprintf("symptom %s; topology %s fault=%s, %d tunnels, id-sharing tunnels=%d; after all application ends finished the bookkeeping stayed non-zero and unchanged for %v: %s",
							s, tp.Name, fault, out.Tunnels, out.Collisions, unchanged.Round(time.Second), desc), map[string]any{"plans": out.Plans, "books": last})
					}
				}
			}
			tSettle := time.Since(t0) - tRun
			hung := m.stop()
			fmt.Fprintf(os.Stderr, "c17 %s/%d %s fault=%s tunnels=%d run=%v settle=%v stop=%v zero=%v\n", phase, ci, tp.Name, fault, out.Tunnels, tRun.Round(time.Millisecond), tSettle.Round(time.Millisecond), (time.Since(t0)-tRun-tSettle).Round(time.Millisecond), zero)
			tap.close()
			dest.close()
			if len(hung) > 0 {
				r.Add("agents_stop_watchdog", len(hung))
			}
			r.Eval(fmt.Sprintf("%s/%s/%v", tp.Name, fault, out.Plans), peak > 0)
			if r.NeedSample() {
				r.Sample(map[string]any{"topology": tp.Name, "fault": fault, "tunnels": out.Tunnels, "class": out.Class, "peak_entries_seen": peak, "settled_all_zero": zero, "first_plans": out.Plans[:min(3, len(out.Plans))]})
			}
		})
	}
	c17BackpressureKill(t, r)
	c17KillAtOpen(t, r)
	run("clean", clean, r.N(6, 45))
	run("prone", prone, r.N(3, 15))
	r.Require("scenarios_clean", 3)
	r.Require("peak_entries_seen", 10)
}

// c17BackpressureKill: one large exit->ingress transfer whose client does not read, so the
// whole return path fills up and the exit's read loop blocks inside its write towards the
// ingress; then the link is torn down from the exit's side (what a keepalive timeout does).
// The exit must release the connection record for the dead tunnel.
func c17BackpressureKill(t *testing.T, r *verifkit.R) {
	byName := map[string]c16Topo{}
	for _, x := range c16Topologies() {
		byName[x.Name] = x
	}
	r.Cases("backpressure-kill", r.N(3, 12), func(ci int, rng *verifkit.Rand) {
		// variants: chain3 with the transit tearing down its link to the ingress; pair with
		// the exit / the ingress tearing the link down
		tp := byName["chain3"]
		killer, other := 1, 0
		switch ci % 3 {
		case 1:
			tp = byName["pair"]
		case 2:
			tp = byName["pair"]
			killer, other = 0, 1
		}
		exitNode := len(tp.Spec.Names) - 1
		dest, err := mkStartDest()
		if err != nil {
			r.Inconclusive("cannot start destination server: " + err.Error())
			return
		}
		defer dest.close()
		tap := mkInstallTap()
		defer tap.close()
		m, err := c16BuildMesh(t, tp, dest, 3*time.Second)
		if err != nil {
			r.Inconclusive("mesh did not come up: " + err.Error())
			return
		}
		plan := mkTunnelPlan{ID: uint64(ci)<<20 | 0x77, Ingress: 0, Via: "tcp", Dest: fmt.Sprintf("127.%d.0.9:%d", tp.Exits[exitNode], dest.port),
			C2S: 10, S2C: int64(24+rng.Intn(16)) << 20, Mode: mkModeOrderly, Chunk: 4096, ReaderStallMs: 2500}
		done := make(chan *mkClientSide, 1)
		go func() { done <- mkRunTunnel(m, plan, 6*time.Second) }()
		// wait until the return path has stopped moving (backpressure reached the exit)
		lastFrames, still := int64(-1), 0
		for i := 0; i < 200 && still < 8; i++ {
			time.Sleep(25 * time.Millisecond)
			if n := tap.nFrames.Load(); n == lastFrames {
				still++
			} else {
				lastFrames, still = n, 0
			}
		}
		peakExit := mkBookOf(m.nodes[exitNode].a).ExitConns
		mkKillLink(m.nodes[killer].a, m.nodes[other].a.ID())
		cs := <-done
		last, zero, unchanged, samples := c17Settle(m, 40*time.Second, 9*time.Second)
		r.Add("bookkeeping_samples", samples)
		r.Add("backpressure_kill_scenarios", 1)
		r.Add("peak_entries_seen", int(peakExit))
		if cs.WriterHung {
			r.Add("client_writes_never_returned", 1)
		}
		if !zero {
			if unchanged < 9*time.Second {
				r.Inconclusive(fmt.Sprintf("backpressure-kill: bookkeeping still changing: %+v", last))
			} else {
				r.Violation("clean:record-remains-after-link-teardown-under-backpressure", "backpressure-kill", ci,
					fmt.Sprintf("%s topology, one %d MiB exit->ingress transfer with a non-reading client; node %d closed its connection to node %d while the return path was blocked by backpressure; "+
						"after the client closed, bookkeeping stayed non-zero and unchanged for %v: %+v", tp.Name, plan.S2C>>20, killer, other, unchanged.Round(time.Second), last),
					map[string]any{"plan": plan, "killer_node": killer, "frames_tapped_before_kill": lastFrames})
			}
		}
		m.stop()
		r.Eval(fmt.Sprintf("bpkill/%s/%d/%d", tp.Name, killer, plan.S2C), peakExit > 0)
	})
}

// c17KillAtOpen: the exit's connection to the requesting peer is closed at the moment the exit is
// about to write a STREAM_OPEN_ACK (fault injected from the write tap, which runs before the frame
// goes out): the exit has dialled the destination successfully and then cannot deliver the
// acknowledgement. Whatever it had recorded for that tunnel must be released. One
// fresh mesh per attempt, so the verdict does not depend on the reconnection logic.
func c17KillAtOpen(t *testing.T, r *verifkit.R) {
	byName := map[string]c16Topo{}
	for _, x := range c16Topologies() {
		byName[x.Name] = x
	}
	r.Cases("kill-at-open", r.N(8, 60), func(ci int, rng *verifkit.Rand) {
		tp := byName[[]string{"pair", "chain3"}[ci%2]]
		exitNode := len(tp.Spec.Names) - 1
		dest, err := mkStartDest()
		if err != nil {
			r.Inconclusive("cannot start destination server: " + err.Error())
			return
		}
		defer dest.close()
		tap := mkInstallTap()
		defer tap.close()
		m, err := c16BuildMesh(t, tp, dest, 3*time.Second)
		if err != nil {
			r.Inconclusive("mesh did not come up: " + err.Error())
			return
		}
		defer m.stop()
		exit := m.nodes[exitNode].a
		var amu sync.Mutex
		armed, kills := 1+rng.Intn(2), 0 // kill at the 1st or 2nd open
		tap.mu.Lock()
		tap.onPayload = func(ev *mkFrameEv, payload []byte) {
			// fire when the exit is about to write the acknowledgement (the write tap runs at
			// the top of WriteFrame, before the frame goes out): the connection dies between the
			// successful dial and the ack
			if !ev.Write || ev.Local != exit.ID() || ev.Type != protocol.FrameStreamOpenAck {
				return
			}
			amu.Lock()
			armed--
			fire := armed == 0
			if fire {
				kills++
			}
			amu.Unlock()
			if fire {
				mkKillLinkFromTap(exit, ev.Remote)
			}
		}
		tap.mu.Unlock()
		for k := 0; k < 2; k++ {
			p := mkTunnelPlan{ID: uint64(ci)<<20 | uint64(k+1), Ingress: 0, Via: "tcp", Dest: fmt.Sprintf("127.%d.0.%d:%d", tp.Exits[exitNode], 10+k, dest.port), C2S: 100, S2C: 100, Mode: mkModeOrderly, Chunk: 50}
			if (ci/2)%2 == 1 {
				p.Via = "forward:fwd-exit" // the forward endpoint has the same accept-then-ack shape
			}
			mkRunTunnel(m, p, 3*time.Second)
			amu.Lock()
			done := kills > 0
			amu.Unlock()
			if done {
				break
			}
		}
		dialled := dest.accepts.Load()
		last, zero, unchanged, samples := c17Settle(m, 40*time.Second, 9*time.Second)
		r.Add("bookkeeping_samples", samples)
		r.Add("kill_at_open_scenarios", 1)
		r.Add("kill_at_open_links_killed", kills)
		r.Add("kill_at_open_destination_dialled", int(dialled))
		if !zero {
			if unchanged < 9*time.Second {
				r.Inconclusive(fmt.Sprintf("kill-at-open: bookkeeping still changing: %+v", last))
			} else {
				r.Violation("clean:record-remains-after-undeliverable-open-ack", "kill-at-open", ci,
					fmt.Sprintf("%s topology: the exit's link to the requesting peer was closed just before it wrote a STREAM_OPEN_ACK (the destination was dialled %d times in this scenario); after everything settled the bookkeeping stayed non-zero and unchanged for %v: %+v",
						tp.Name, dialled, unchanged.Round(time.Second), last), nil)
			}
		}
		r.Eval(fmt.Sprintf("killopen/%s/%d/%d", tp.Name, ci, dialled), dialled > 0)
	})
}
