package agent

// C20 (agent part) — the `forward:` dispatch of the real Agent.handleStreamOpen: a STREAM_OPEN
// whose domain-typed address is "forward:<key>" reaches the forward handler with exactly <key>;
// only the target configured for exactly that key is ever connected; an unknown key is refused
// with the protocol's not-found error and nothing is connected.
//
// The Agent is built from a real config.Config (forward.endpoints). forward.Handler has no
// SetWriter, and replies addressed to a peer that is not connected are dropped by the agent, so
// the harness rebuilds a.forwardHandler from the key/target table the agent itself derived from
// its configuration (GetKeys/GetTarget of the instance New() created — a wrong table would
// therefore show up in the behaviour) with a recording StreamWriter. Everything else — frame
// decoding, address-to-string, prefix dispatch, key extraction, the forward.Handler code — is the
// real code. In-package only for a.forwardHandler / a.handleStreamOpen.

import (
	"context"
	"fmt"
	"net/netip"
	"os"
	"sort"
	"strings"
	"testing"
	"time"

	"github.com/postalsys/muti-metroo/internal/config"
	"github.com/postalsys/muti-metroo/internal/crypto"
	"github.com/postalsys/muti-metroo/internal/forward"
	"github.com/postalsys/muti-metroo/internal/identity"
	"github.com/postalsys/muti-metroo/internal/protocol"
	"github.com/postalsys/muti-metroo/internal/verifkit"
)

const c20aTargets = 5

type c20aReq struct {
	Addr      string `json:"address_hex"`
	AddrType  int    `json:"address_type"`
	Known     bool   `json:"known"`
	Class     string `json:"class"`
	Reply     string `json:"reply"`
	Connected []int  `json:"connected_targets,omitempty"`
}

func c20aKeys(rng *verifkit.Rand) []string {
	bases := []string{"web", "db", "my-web-server", "ssh", "Key", "a", "svc.internal", "forward:web", "web ", "k\x00x"}
	n := 1 + rng.Intn(4)
	seen := map[string]bool{}
	var keys []string
	add := func(k string) {
		if k != "" && len(k) <= 200 && !seen[k] && len(keys) < n {
			seen[k] = true
			keys = append(keys, k)
		}
	}
	for tries := 0; len(keys) < n && tries < 50; tries++ {
		b := bases[rng.Intn(len(bases))]
		switch rng.Intn(8) {
		case 0:
			add(b)
			add(b + "-1")
		case 1:
			add(b)
			add(b[:len(b)-1])
		case 2:
			add(b)
			add(strings.ToUpper(b))
		case 3:
			add(strings.Repeat("k", 200))
		default:
			add(b)
		}
	}
	return keys
}

func TestVerif_C20Agent(t *testing.T) {
	r := verifkit.Start(t, "C20", "agent")
	r.Rule("real Agent per case with 1-4 forward endpoints (keys that are prefixes/extensions/case variants of one another, keys containing 'forward:', NUL, trailing space, 200 bytes) x crafted STREAM_OPEN frames through Agent.handleStreamOpen " +
		"(forward:<key> exact and near-miss, prefix spelled Forward:/FORWARD:/' forward:', doubled prefix, non-domain address types); non-trivial = agent with >=1 known-key connect and >=1 unknown-key refusal; distinct by (keys, requests)")
	r.Assume("the agent's forward handler is re-created from the agent's own key/target table with a recording StreamWriter (no SetWriter on forward.Handler)")

	var sinks []*kitSink
	for j := 0; j < c20aTargets; j++ {
		s, err := newKitSink()
		if err != nil {
			r.Inconclusive("cannot open loopback listeners: " + err.Error())
			return
		}
		defer s.Close()
		sinks = append(sinks, s)
	}
	dns, err := newKitDNS(map[string]netip.Addr{}) // answers NXDOMAIN to everything, at once
	if err != nil {
		r.Inconclusive("cannot start loopback DNS responder: " + err.Error())
		return
	}
	defer dns.Close()
	root := t.TempDir()
	barrierAll := func() (map[int]int, bool) {
		got := map[int]int{}
		for i, s := range sinks {
			accs, ok := s.barrier()
			if !ok {
				return nil, false
			}
			if len(accs) > 0 {
				got[i] = len(accs)
			}
		}
		return got, true
	}

	n := r.N(60, 1500)
	r.Cases("cfg", n, func(ci int, rng *verifkit.Rand) {
		dir, err := os.MkdirTemp(root, "a")
		if err != nil {
			r.Inconclusive("tempdir: " + err.Error())
			return
		}
		keys := c20aKeys(rng)
		perm := []int{0, 1, 2, 3, 4}
		verifkit.Shuffle(rng, perm)
		cfg := config.Default()
		cfg.Agent.DataDir = dir
		cfg.Agent.LogLevel = "error"
		cfg.Connections.IdleThreshold = 30 * time.Second
		tgt := map[string]int{}
		for i, k := range keys {
			cfg.Forward.Endpoints = append(cfg.Forward.Endpoints, config.ForwardEndpoint{Key: k, Target: fmt.Sprintf("127.0.0.1:%d", sinks[perm[i]].Port)})
			tgt[k] = perm[i]
		}
		// An exit handler for 127.0.0.0/8 next to the forward handler (2 of 3 agents): every decodable
		// request is then answered exactly once by one of the two handlers, which is what lets the
		// harness wait for "decided" without a clock. Without it, only forward:-prefixed requests are sent.
		withExit := rng.Chance(2, 3)
		if withExit {
			cfg.Exit.Enabled = true
			cfg.Exit.Routes = []string{"127.0.0.0/8"}
			cfg.Exit.DNS.Servers = []string{dns.Addr}
			cfg.Exit.DNS.Timeout = 5 * time.Second
		}
		a, err := New(cfg)
		if err != nil {
			r.Inconclusive("agent.New: " + err.Error())
			return
		}
		if a.forwardHandler == nil {
			r.Violation("config:no-forward-handler-for-configured-endpoints", "cfg", ci, "agent built no forward handler although endpoints are configured", nil)
			return
		}
		// rebuild the handler from the agent's own table, with a recorder
		rec := newKitWriter()
		hk := a.forwardHandler.GetKeys()
		sort.Strings(hk)
		var eps []forward.Endpoint
		for _, k := range hk {
			tg, _ := a.forwardHandler.GetTarget(k)
			eps = append(eps, forward.Endpoint{Key: k, Target: tg})
		}
		hcfg := forward.DefaultHandlerConfig()
		hcfg.Endpoints = eps
		hcfg.ConnectTimeout = 5 * time.Second
		hcfg.IdleTimeout = 30 * time.Second
		hcfg.MaxConnections = 100000
		a.forwardHandler = forward.NewHandler(hcfg, a.id, rec)
		if withExit {
			a.exitHandler.SetWriter(rec)
		}
		if err := a.Start(); err != nil {
			r.Inconclusive("agent.Start: " + err.Error())
			return
		}
		defer func() {
			ctx, cancel := context.WithTimeout(context.Background(), kitWatchdog)
			defer cancel()
			if err := a.StopWithContext(ctx); err != nil {
				r.Inconclusive("agent did not stop within the watchdog")
			}
		}()
		if _, ok := barrierAll(); !ok {
			r.Inconclusive("sink barrier failed (watchdog)")
			return
		}
		_, eph, err := crypto.GenerateEphemeralKeypair()
		if err != nil {
			r.Inconclusive("keygen: " + err.Error())
			return
		}
		var peer identity.AgentID
		rng.Fill(peer[:])
		hexKeys := make([]string, len(keys))
		for i, k := range keys {
			hexKeys[i] = verifkit.Hex([]byte(k))
		}
		var reqs []c20aReq
		witness := func() any { return map[string]any{"keys_hex": hexKeys, "with_exit": withExit, "requests": reqs} }
		nKnown, nUnknown := 0, 0
		nreq := rng.Range(10, 20)
		for q := 0; q < nreq; q++ {
			k := keys[rng.Intn(len(keys))]
			addrType := protocol.AddrTypeDomain
			var s, class string
			switch rng.Intn(16) {
			case 0, 1, 2, 3:
				s, class = "forward:"+k, "exact"
			case 4:
				s, class = "forward:"+k[:len(k)-1], "key-truncated"
			case 5:
				s, class = "forward:"+k+"x", "key-extended"
			case 6:
				s, class = "forward:"+strings.ToUpper(k), "key-upper"
			case 7:
				s, class = "forward:"+strings.ToLower(k), "key-lower"
			case 8:
				s, class = "forward: "+k, "key-space-padded"
			case 9:
				s, class = "Forward:"+k, "prefix-case"
			case 10:
				s, class = "FORWARD:"+k, "prefix-case"
			case 11:
				s, class = " forward:"+k, "prefix-space-padded"
			case 12:
				s, class = "forward:forward:"+k, "prefix-doubled"
			case 13:
				s, class = "forward:", "empty-key"
			case 14:
				s, class = k, "no-prefix"
			default:
				s, class = "forward:"+string(rng.Bytes(1+rng.Intn(10))), "random-key"
			}
			if !withExit && !strings.HasPrefix(s, protocol.ForwardStreamPrefix) {
				s, class = "forward:"+k, "exact" // would be dropped without an answer: nothing to wait for
			}
			if len(s) > 255 {
				s = s[:255]
				class = "cut-at-255"
			}
			addr := append([]byte{byte(len(s))}, s...)
			// the requested key, as the protocol defines it: what follows the literal prefix
			reqKey, isFwd := "", false
			if strings.HasPrefix(s, protocol.ForwardStreamPrefix) {
				reqKey, isFwd = s[len(protocol.ForwardStreamPrefix):], true
			}
			want, known := -1, false
			if isFwd {
				want, known = tgt[reqKey], false
				_, known = tgt[reqKey]
			}
			id := uint64(5000 + q)
			open := &protocol.StreamOpen{RequestID: id + 9, AddressType: addrType, Address: addr, Port: uint16(sinks[0].Port), EphemeralPubKey: eph}
			if rng.Chance(1, 5) {
				open.RemainingPath = []identity.AgentID{a.ID()}
			}
			rq := c20aReq{Addr: verifkit.Hex([]byte(s)), AddrType: int(addrType), Known: known, Class: class}
			a.handleStreamOpen(peer, &protocol.Frame{Type: protocol.FrameStreamOpen, StreamID: id, Payload: open.Encode()})
			// every request that reaches the forward or exit handler is answered exactly once;
			// a non-forward address without an exit handler is silently dropped by the agent.
			expectReply := isFwd || withExit
			if expectReply {
				rp, ok := rec.waitReply(id)
				if !ok {
					r.Inconclusive("no reply to an open request within the watchdog")
					return
				}
				if rp.Ack {
					rq.Reply = "ack"
				} else {
					rq.Reply = fmt.Sprintf("err %d", rp.ErrCode)
				}
				if isFwd && !known && (rp.Ack || rp.ErrCode != protocol.ErrForwardNotFound) {
					r.Violation("unknown-key:"+class+":not-refused-with-not-found", "cfg", ci,
						fmt.Sprintf("forward request (address hex %s, %s) answered with %s instead of error %d", rq.Addr, class, rq.Reply, protocol.ErrForwardNotFound), witness())
				}
			} else {
				rq.Reply = "dropped"
			}
			got, ok := barrierAll()
			if !ok {
				r.Inconclusive("sink barrier failed (watchdog)")
				return
			}
			a.forwardHandler.HandleStreamClose(peer, id)
			if withExit {
				a.exitHandler.HandleStreamClose(peer, id)
			}
			rec.forget(id)
			for ti := range got {
				rq.Connected = append(rq.Connected, ti)
			}
			reqs = append(reqs, rq)
			r.Add("requests", 1)
			switch {
			case known:
				for ti := range got {
					if ti != want {
						r.Violation("known-key:connected-to-other-target", "cfg", ci,
							fmt.Sprintf("forward request for a configured key connected to listener #%d, its target is #%d", ti, want), witness())
					}
				}
				if got[want] > 0 {
					nKnown++
					r.Add("known_key_connected", 1)
				} else {
					r.Add("known_key_not_connected", 1)
				}
			default:
				r.Add("unknown:"+class, 1)
				if len(got) > 0 {
					r.Violation("unknown-key:"+class+":connected", "cfg", ci,
						fmt.Sprintf("request (address hex %s, %s) names no configured forward key but opened a connection to listener(s) %v", rq.Addr, class, rq.Connected), witness())
				} else {
					nUnknown++
					r.Add("unknown_key_no_connection", 1)
				}
			}
		}
		var sb strings.Builder
		for _, q := range reqs {
			sb.WriteString(q.Addr + ">" + q.Reply + ";")
		}
		nontriv := nKnown > 0 && nUnknown > 0
		r.Eval(strings.Join(hexKeys, ",")+"|"+sb.String(), nontriv)
		if nontriv && r.NeedSample() {
			r.Sample(witness())
		}
	})
	r.Require("requests", 600)
	r.Require("known_key_connected", 100)
	r.Require("unknown_key_no_connection", 300)
}
