package agent

// C13 (agent level) — in meshes of real agents over loopback QUIC in which every node is an
// exit (CIDR /32 and a domain pattern) the metric of every learned CIDR, domain and
// agent-presence route equals the length of its recorded path.

import (
	"fmt"
	"testing"

	"github.com/postalsys/muti-metroo/internal/verifkit"
)

func c13AgentsTopo(r *verifkit.R, ci int, t fmTopo) {
	m := fmBuild(r, t)
	if m == nil {
		return
	}
	defer func() {
		if hung := m.stop(); len(hung) > 0 {
			r.Add("agents_hung_on_stop", len(hung))
		}
	}()
	type row struct {
		At          int
		Kind, What  string
		Metric, Hop int
	}
	var rows []row
	vio, far := 0, 0
	judge := func(x int, kind, what string, metric uint16, pathLen int) {
		if pathLen == 0 {
			return // local route
		}
		r.Add("entries_checked", 1)
		if pathLen >= 2 {
			far++
			r.Add("entries_two_or_more_hops", 1)
		}
		rw := row{At: x, Kind: kind, What: what, Metric: int(metric), Hop: pathLen}
		if len(rows) < 40 {
			rows = append(rows, rw)
		}
		if int(metric) != pathLen {
			vio++
			r.Violation("agents:"+kind+"-metric-differs-from-path-length", "agents", ci,
				fmt.Sprintf("%s: agent %d holds %s %s with metric %d and a path of %d hops", t.Name, x, kind, what, metric, pathLen), rw)
		}
	}
	for x := 0; x < t.N; x++ {
		a := m.nodes[x].a
		self := a.ID()
		for _, rt := range a.GetRoutes() {
			if rt.OriginAgent != self {
				judge(x, "cidr", rt.Network.String(), rt.Metric, len(rt.Path))
			}
		}
		for _, rt := range a.routeMgr.DomainTable().GetAllRoutes() {
			if rt.OriginAgent != self {
				judge(x, "domain", rt.Pattern, rt.Metric, len(rt.Path))
			}
		}
		for _, rt := range a.routeMgr.AgentTable().GetAllRoutes() {
			judge(x, "agent", m.name(rt.AgentID), rt.Metric, len(rt.Path))
		}
	}
	r.Eval(t.Name, far > 0)
	if r.NeedSample() {
		r.Sample(map[string]any{"topology": t.Name, "entries_head": rows})
	}
}

func TestVerif_C13Agents(t *testing.T) {
	r := verifkit.Start(t, "C13", "agents")
	r.Rule("one case = one mesh of real agents (loopback QUIC), every node an exit; after convergence Metric vs len(Path) is judged for every learned CIDR, domain and agent-presence entry of every agent; " +
		"non-trivial = entries learned two or more hops away were judged; distinct by topology")
	topos := fmTopos[:2]
	if !r.Quick() {
		topos = fmTopos
	}
	for ci, tp := range topos {
		if !r.Wanted("agents", ci) {
			continue
		}
		r.Mark("agents", ci)
		c13AgentsTopo(r, ci, tp)
	}
	r.Require("entries_two_or_more_hops", 10)
}
