package agent

// C04 — transit agents see only ciphertext of tunnelled application data.
//
// Real agents over loopback QUIC with >= 1 transit between ingress and exit. Every
// application byte stream carries an 8-byte canary every 64 bytes and starts with a magic
// header. The frame tap inspects the payload of every data-bearing frame on every
// inter-agent link (each link touches a transit): a payload containing a canary carries
// plaintext. The crypto tap counts, per session-key fingerprint, who derived it: exactly one
// initiator and one responder — a third derivation means a transit holds the key.

import (
	"bytes"
	"fmt"
	"sync"
	"testing"

	"github.com/postalsys/muti-metroo/internal/protocol"
	"github.com/postalsys/muti-metroo/internal/verifkit"
)

func TestVerif_C04(t *testing.T) {
	r := verifkit.Start(t, "C04", "mesh-tcp")
	if !mkHooksPresent() {
		r.Inconclusive("frame/crypto tap hooks not compiled in (build tag verif)")
		return
	}
	r.Rule("scenario = chain of 3 or 4 real agents (1-2 transits) x PRNG concurrent TCP and port-forward tunnels with canary-carrying payloads in both directions; " +
		"every STREAM_DATA payload on every link is scanned for the canary / header magic, and every session key fingerprint must be derived exactly once per role; " +
		"non-trivial = scenario with >= 1 tunnel that moved >= 1 KiB in each direction through >= 1 transit; distinct by (topology, plans)")
	r.Assume("ICMP echo payloads cannot be exercised end to end (sandbox denies ICMP sockets); UDP datagrams are covered by part mesh-udp")
	var topos []c16Topo
	for _, tp := range c16Topologies() {
		if tp.Name == "chain4" || tp.Name == "chain3" {
			topos = append(topos, tp)
		}
	}
	r.Cases("scan", r.N(4, 40), func(ci int, rng *verifkit.Rand) {
		tp := topos[ci%len(topos)]
		var mu sync.Mutex
		leaks := map[string]string{}
		scanned, scannedBytes := 0, 0
		ct := mkInstallCryptoTap(false)
		defer ct.close()
		// the scenario runner installs the frame tap; add the payload scanner to it
		hook := func(tap *mkTap) {
			tap.mu.Lock()
			tap.onPayload = func(ev *mkFrameEv, payload []byte) {
				if ev.Type != protocol.FrameStreamData && ev.Type != protocol.FrameUDPDatagram && ev.Type != protocol.FrameICMPEcho {
					return
				}
				hit := ""
				if bytes.Contains(payload, []byte(mkCanary)) {
					hit = "canary"
				} else if bytes.Contains(payload, []byte(mkMagic)) {
					hit = "tunnel-header"
				}
				mu.Lock()
				scanned++
				scannedBytes += len(payload)
				if hit != "" && len(leaks) < 5 {
					leaks[fmt.Sprintf("type=0x%02x write=%v", ev.Type, ev.Write)] = fmt.Sprintf("%s in a %d-byte payload: %s", hit, len(payload), verifkit.Hex(payload[:min(len(payload), 48)]))
				}
				mu.Unlock()
			}
			tap.mu.Unlock()
		}
		opts := c16Opts{OrderlyOnly: true, TapHook: hook, SkipDataOracle: true}
		k := rng.Range(2, r.N(8, 24))
		out, results, m, dest, tap := c16RunScenario(t, r, "scan", ci, rng, tp, k, int64(r.N(60000, 400000)), opts)
		if out == nil {
			return
		}
		moved := 0
		for _, cs := range results {
			if cs.Meshed && cs.Got >= 1024 && cs.Sent >= 1024 {
				moved++
			}
		}
		m.stop()
		tap.close()
		dest.close()
		mu.Lock()
		for where, what := range leaks {
			r.Violation("plaintext-on-link:stream-data", "scan", ci, fmt.Sprintf("topology %s: a data frame on an inter-agent link carries application plaintext (%s): %s", tp.Name, where, what), out.Plans)
		}
		r.Add("data_frames_scanned", scanned)
		r.Add("payload_bytes_scanned", scannedBytes)
		mu.Unlock()
		// key holders
		ct.mu.Lock()
		type cnt struct{ ini, rsp int }
		per := map[[8]byte]*cnt{}
		for _, e := range ct.derived {
			c := per[e.FP]
			if c == nil {
				c = &cnt{}
				per[e.FP] = c
			}
			if e.Initiator {
				c.ini++
			} else {
				c.rsp++
			}
		}
		ct.mu.Unlock()
		for fp, c := range per {
			if c.ini > 1 || c.rsp > 1 {
				r.Violation("session-key-derived-by-third-party", "scan", ci, fmt.Sprintf("session key %x was derived %d times as initiator and %d times as responder (expected once each: ingress and exit)", fp, c.ini, c.rsp), out.Plans)
			}
		}
		r.Add("session_keys_observed", len(per))
		r.Add("tunnels", len(results))
		r.Eval(fmt.Sprintf("%s/%v", tp.Name, out.Plans), moved >= 1)
		if r.NeedSample() {
			r.Sample(map[string]any{"topology": tp.Name, "tunnels": len(results), "data_frames_scanned": scanned, "payload_bytes_scanned": scannedBytes, "session_keys": len(per), "first_plans": out.Plans[:min(3, len(out.Plans))]})
		}
	})
	r.Require("data_frames_scanned", 200)
	r.Require("session_keys_observed", 4)
}
