package agent

// C04 — transit agents see only ciphertext of tunnelled application data.
//
// Real agents over loopback QUIC with >= 1 transit between ingress and exit. Every
// application byte stream carries an 8-byte canary every 64 bytes and starts with a magic
// header. The frame tap inspects the payload of every data-bearing frame on every
// inter-agent link (each link touches a transit): a payload containing a canary carries
// plaintext. The crypto tap counts, per session-key fingerprint, who derived it: exactly one
// initiator and one responder — a third derivation means a transit holds the key.

import (
	"bytes"
	"context"
	"fmt"
	"io"
	"net"
	"sync"
	"sync/atomic"
	"testing"
	"time"

	"golang.org/x/crypto/chacha20poly1305"

	"github.com/postalsys/muti-metroo/internal/crypto"
	"github.com/postalsys/muti-metroo/internal/protocol"
	"github.com/postalsys/muti-metroo/internal/verifkit"
)

func TestVerif_C04(t *testing.T) {
	r := verifkit.Start(t, "C04", "mesh-tcp")
	if !mkHooksPresent() {
		r.Inconclusive("frame/crypto tap hooks not compiled in (build tag verif)")
		return
	}
	r.Rule("scenario = chain of 3 or 4 real agents (1-2 transits) x PRNG concurrent TCP and port-forward tunnels with canary-carrying payloads in both directions; " +
		"every STREAM_DATA payload on every link is scanned for the canary / header magic, and every session key fingerprint must be derived exactly once per role; " +
		"non-trivial = scenario with >= 1 tunnel that moved >= 1 KiB in each direction through >= 1 transit; distinct by (topology, plans)")
	r.Assume("ICMP echo payloads cannot be exercised end to end (sandbox denies ICMP sockets); UDP datagrams are covered by part mesh-udp")
	var topos []c16Topo
	for _, tp := range c16Topologies() {
		if tp.Name == "chain4" || tp.Name == "chain3" {
			topos = append(topos, tp)
		}
	}
	r.Cases("scan", r.N(4, 40), func(ci int, rng *verifkit.Rand) {
		tp := topos[ci%len(topos)]
		var mu sync.Mutex
		leaks := map[string]string{}
		scanned, scannedBytes := 0, 0
		ct := mkInstallCryptoTap(true)
		defer ct.close()
		zeroAEAD, _ := chacha20poly1305.New(make([]byte, 32))
		openedWithZeroKey := 0
		// the scenario runner installs the frame tap; add the payload scanner to it
		hook := func(tap *mkTap) {
			tap.mu.Lock()
			tap.onPayload = func(ev *mkFrameEv, payload []byte) {
				if ev.Type != protocol.FrameStreamData && ev.Type != protocol.FrameUDPDatagram && ev.Type != protocol.FrameICMPEcho {
					return
				}
				hit := ""
				if len(payload) >= 28 {
					// anyone can try the all-zero key: a frame that opens under it is readable by a transit
					if _, err := zeroAEAD.Open(nil, payload[:12], payload[12:], nil); err == nil {
						hit = "opens-under-all-zero-key"
						mu.Lock()
						openedWithZeroKey++
						mu.Unlock()
					}
				}
				if hit != "" {
				} else if bytes.Contains(payload, []byte(mkCanary)) {
					hit = "canary"
				} else if bytes.Contains(payload, []byte(mkMagic)) {
					hit = "tunnel-header"
				}
				mu.Lock()
				scanned++
				scannedBytes += len(payload)
				if hit != "" && len(leaks) < 5 {
					leaks[fmt.Sprintf("type=0x%02x write=%v", ev.Type, ev.Write)] = fmt.Sprintf("%s in a %d-byte payload: %s", hit, len(payload), verifkit.Hex(payload[:min(len(payload), 48)]))
				}
				mu.Unlock()
			}
			tap.mu.Unlock()
		}
		// half of the scenarios end tunnels abruptly (client cancels a download, server aborts):
		// frames emitted around a teardown must be sealed under the tunnel key as well
		opts := c16Opts{OrderlyOnly: ci%2 == 0, TapHook: hook, SkipDataOracle: true, AbortHeavy: ci%2 == 1, Watchdog: 20 * time.Second}
		k := rng.Range(2, r.N(8, 24))
		if ci%2 == 1 {
			k = rng.Range(12, r.N(24, 48))
		}
		out, results, m, dest, tap := c16RunScenario(t, r, "scan", ci, rng, tp, k, int64(r.N(60000, 400000)), opts)
		if out == nil {
			return
		}
		if ci%2 == 1 {
			// abort storm on the same mesh: many downloads cancelled by the client after the first
			// few frames, while the exit is still reading from the destination at full speed
			rounds, par := r.N(5, 20), 32
			for rd := 0; rd < rounds; rd++ {
				var wg sync.WaitGroup
				for j := 0; j < par; j++ {
					p := mkTunnelPlan{ID: uint64(ci)<<20 | uint64(0x4000+rd*par+j), Ingress: tp.Ingresses[0], Via: "tcp",
						Dest: fmt.Sprintf("127.1.%d.%d:%d", 100+rd%50, 1+j, dest.port), C2S: 0, S2C: 6 << 20, Mode: mkModeClientAbort,
						AbortAfter: int64(1 + rng.Intn(70000)), Chunk: 4096, ReadBuf: 4096}
					wg.Add(1)
					go func() { defer wg.Done(); mkRunTunnel(m, p, 20*time.Second) }()
				}
				wg.Wait()
				r.Add("downloads_cancelled_mid_stream", par)
			}
		}
		moved := 0
		for _, cs := range results {
			if cs.Meshed && cs.Got >= 1024 && cs.Sent >= 1024 {
				moved++
			}
		}
		m.stop()
		tap.close()
		dest.close()
		mu.Lock()
		ct.mu.Lock()
		zeroSeals := ct.zeroKeySeals
		ct.mu.Unlock()
		if zeroSeals > 0 {
			r.Violation("sealed-under-all-zero-key", "scan", ci, fmt.Sprintf("topology %s: %d payloads were sealed by a SessionKey whose key bytes are all zero (a key every transit knows)", tp.Name, zeroSeals), out.Plans)
		}
		for where, what := range leaks {
			r.Violation("plaintext-on-link:stream-data", "scan", ci, fmt.Sprintf("topology %s: a data frame on an inter-agent link carries application plaintext (%s): %s", tp.Name, where, what), out.Plans)
		}
		r.Add("data_frames_scanned", scanned)
		r.Add("payload_bytes_scanned", scannedBytes)
		mu.Unlock()
		// key holders
		ct.mu.Lock()
		type cnt struct{ ini, rsp int }
		per := map[[8]byte]*cnt{}
		for _, e := range ct.derived {
			c := per[e.FP]
			if c == nil {
				c = &cnt{}
				per[e.FP] = c
			}
			if e.Initiator {
				c.ini++
			} else {
				c.rsp++
			}
		}
		ct.mu.Unlock()
		for fp, c := range per {
			if c.ini > 1 || c.rsp > 1 {
				r.Violation("session-key-derived-by-third-party", "scan", ci, fmt.Sprintf("session key %x was derived %d times as initiator and %d times as responder (expected once each: ingress and exit)", fp, c.ini, c.rsp), out.Plans)
			}
		}
		r.Add("session_keys_observed", len(per))
		r.Add("tunnels", len(results))
		r.Eval(fmt.Sprintf("%s/%v", tp.Name, out.Plans), moved >= 1)
		if r.NeedSample() {
			r.Sample(map[string]any{"topology": tp.Name, "tunnels": len(results), "data_frames_scanned": scanned, "payload_bytes_scanned": scannedBytes, "session_keys": len(per), "first_plans": out.Plans[:min(3, len(out.Plans))]})
		}
	})
	c04CancelAtAck(t, r)
	r.Require("data_frames_scanned", 200)
	r.Require("session_keys_observed", 4)
	r.Require("cancel_at_ack_dials", 20)
}

// c04CancelAtAck: the dial's context is cancelled at the very moment the open acknowledgement
// reaches the ingress (the cancel is issued from the ingress's read tap, before the frame is
// dispatched), so "cancelled" and "answered" become ready together; whatever the dial returns,
// the caller uses it (writes canary data, reads) and closes. A transit has seen both ephemeral
// public keys and the request id on the wire; every session key derived anywhere is compared
// with the keys those public values alone give (an all-zero private scalar on either side): a
// match means the tunnel's traffic is readable by the transit.
func c04CancelAtAck(t *testing.T, r *verifkit.R) {
	var chain3 c16Topo
	for _, tp := range c16Topologies() {
		if tp.Name == "chain3" {
			chain3 = tp
		}
	}
	r.Cases("cancel-at-ack", r.N(2, 12), func(ci int, rng *verifkit.Rand) {
		dest, err := mkStartDest()
		if err != nil {
			r.Inconclusive(err.Error())
			return
		}
		defer dest.close()
		ct := mkInstallCryptoTap(false)
		defer ct.close()
		tap := mkInstallTap()
		defer tap.close()
		m, err := c16BuildMesh(t, chain3, dest, 30*time.Second)
		if err != nil {
			r.Inconclusive("mesh did not come up: " + err.Error())
			return
		}
		defer m.stop()
		ing := m.nodes[0].a
		type pub struct {
			in, ex [32]byte
			haveIn, haveEx bool
		}
		var pmu sync.Mutex
		pubs := map[uint64]*pub{}
		var cancelNext atomic.Value // context.CancelFunc of the dial in progress
		tap.mu.Lock()
		tap.onPayload = func(ev *mkFrameEv, payload []byte) {
			switch ev.Type {
			case protocol.FrameStreamOpen:
				if o, err := protocol.DecodeStreamOpen(payload); err == nil {
					pmu.Lock()
					p := pubs[o.RequestID]
					if p == nil {
						p = &pub{}
						pubs[o.RequestID] = p
					}
					p.in, p.haveIn = o.EphemeralPubKey, true
					pmu.Unlock()
				}
			case protocol.FrameStreamOpenAck:
				if a, err := protocol.DecodeStreamOpenAck(payload); err == nil {
					pmu.Lock()
					p := pubs[a.RequestID]
					if p == nil {
						p = &pub{}
						pubs[a.RequestID] = p
					}
					p.ex, p.haveEx = a.EphemeralPubKey, true
					pmu.Unlock()
				}
				if !ev.Write && ev.Local == ing.ID() {
					if c, ok := cancelNext.Load().(context.CancelFunc); ok && c != nil {
						c() // the acknowledgement is here, not yet dispatched
					}
				}
			}
		}
		tap.mu.Unlock()
		n := r.N(24, 120)
		returned, used := 0, 0
		for k := 0; k < n; k++ {
			ctx, cancel := context.WithCancel(context.Background())
			cancelNext.Store(cancel)
			var conn net.Conn
			var derr error
			if k%3 == 2 {
				conn, derr = ing.DialForward(ctx, "fwd-exit")
			} else {
				conn, derr = ing.DialContext(ctx, "tcp", fmt.Sprintf("127.1.12.%d:%d", 1+k%200, dest.port))
			}
			cancelNext.Store(context.CancelFunc(func() {}))
			r.Add("cancel_at_ack_dials", 1)
			if derr == nil && conn != nil {
				returned++
				// the caller carries on with what it was given
				buf := make([]byte, 2000)
				mkGen(uint64(ci)<<20|uint64(k), 0, 0, buf)
				conn.SetDeadline(time.Now().Add(500 * time.Millisecond))
				if _, err := conn.Write(buf); err == nil {
					used++
				}
				io.CopyN(io.Discard, conn, 1)
				conn.Close()
			}
			cancel()
		}
		time.Sleep(300 * time.Millisecond)
		// (snapshot first: DeriveSessionKey below passes through the same tap)
		ct.mu.Lock()
		derived := append([]mkKeyEv(nil), ct.derived...)
		ct.mu.Unlock()
		ct.close()
		// keys computable from what a transit saw
		var zero [32]byte
		publicOnly := map[[8]byte]string{}
		pmu.Lock()
		for req, p := range pubs {
			if !p.haveIn || !p.haveEx {
				continue
			}
			if s1, err := crypto.ComputeECDH(zero, p.ex); err == nil {
				publicOnly[mkKeyFP(crypto.DeriveSessionKey(s1, req, p.in, p.ex, true))] = fmt.Sprintf("request %d: initiator key from a zero private scalar and the exit's public key", req)
			}
			if s2, err := crypto.ComputeECDH(zero, p.in); err == nil {
				publicOnly[mkKeyFP(crypto.DeriveSessionKey(s2, req, p.in, p.ex, false))] = fmt.Sprintf("request %d: responder key from a zero private scalar and the ingress's public key", req)
			}
		}
		npubs := len(pubs)
		pmu.Unlock()
		for _, e := range derived {
			if why, ok := publicOnly[e.FP]; ok {
				r.Violation("session-key-computable-from-public-values", "cancel-at-ack", ci,
					fmt.Sprintf("an agent derived (initiator=%v) and used session key %x, which a transit can compute from the STREAM_OPEN and STREAM_OPEN_ACK it relayed (%s); the dial had been cancelled as its acknowledgement arrived", e.Initiator, e.FP, why), nil)
			}
		}
		r.Add("cancel_at_ack_conns_returned", returned)
		r.Add("cancel_at_ack_conns_used", used)
		r.Add("cancel_at_ack_key_pairs_seen_on_wire", npubs)
		r.Add("session_keys_observed", len(derived))
		r.Eval(fmt.Sprintf("cancel-at-ack/%d/%d/%d", ci, n, returned), npubs >= n/2)
	})
}
