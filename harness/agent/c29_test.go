package agent

// C29 (agent-level part) — an agent acts on a given validly signed sleep/wake command at
// most once, whichever path the replay arrives by (SLEEP_COMMAND, WAKE_COMMAND or
// QUEUED_STATE), also when the same signed content is presented in the other frame type,
// and after arbitrary other (forged) traffic.
//
// Monitor / rig: see c28_common_test.go (real started agent, recording OnSleep/OnWake
// wrappers, two fake peers receiving everything the agent forwards).
// Oracle: a step that delivers a command which already took effect once must cause no
// OnSleep/OnWake call and no forwarded sleep/wake frame. Replays are presented as the
// command kind that would have an effect in the agent's current state.

import (
	"fmt"
	"testing"

	"github.com/postalsys/muti-metroo/internal/protocol"
	"github.com/postalsys/muti-metroo/internal/sleep"
	"github.com/postalsys/muti-metroo/internal/verifkit"
)

func TestVerif_C29_Agent(t *testing.T) {
	r := verifkit.Start(t, "C29", "agent")
	r.Rule("PRNG histories on a real started agent with a signing public key: new validly signed commands, replays of " +
		"commands that already took effect (through SLEEP_COMMAND, WAKE_COMMAND or QUEUED_STATE, same or other frame " +
		"type, presented as the kind that would change the current state), forged commands in between; " +
		"non-trivial = history with >=1 replay of an acted command in a state where acting again would be visible; " +
		"distinct by hash of (op,path,events,forwards) list")
	n := r.N(100, 1200)
	dirs := make([]string, n)
	for i := range dirs {
		dirs[i] = t.TempDir()
	}
	r.ParCases("replay", n, 4, func(ci int, rng *verifkit.Rand) { c29AgentCase(r, "replay", ci, rng, dirs[ci]) })
	r.Require("first_acts", 150)
	r.Require("replays_judged", 150)
	r.Require("replays_via_queued_state", 50)
}

type c29AStep struct {
	Op       string `json:"op"`
	Path     string `json:"path"`
	Cmd      int    `json:"cmd"`
	Type     string `json:"type"`
	Before   string `json:"state_before"`
	Sleeps   int    `json:"on_sleep_calls"`
	Wakes    int    `json:"on_wake_calls"`
	Forwards int    `json:"sleep_wake_frames_sent_to_peers"`
}

type c29AGen struct {
	cmd      *c28Cmd
	acts     int
	firstVia string // "frame" | "queued-state": how the delivery that took effect arrived
}

func c29AgentCase(r *verifkit.R, phase string, ci int, rng *verifkit.Rand, dir string) {
	h, err := c28NewRig(r, rng, dir, 2)
	if err != nil {
		r.Inconclusive("rig: " + err.Error())
		return
	}
	defer h.stop()
	g := h.gen
	var steps []c29AStep
	var gens []*c29AGen
	var fp string
	replays := 0

	frameFor := func(c *c28Cmd, queued bool) (string, func()) {
		switch {
		case !queued && !c.Wake:
			return "sleep-frame", func() { h.a.processFrame(h.ids[0], c28SleepFrame(c)) }
		case !queued && c.Wake:
			return "wake-frame", func() { h.a.processFrame(h.ids[0], c28WakeFrame(c)) }
		case !c.Wake:
			return "queued-sleep", func() { h.a.processFrame(h.ids[0], c28QueuedFrame(c, nil)) }
		default:
			return "queued-wake", func() { h.a.processFrame(h.ids[0], c28QueuedFrame(nil, c)) }
		}
	}

	nsteps := rng.Range(8, 14)
	for si := 0; si < nsteps; si++ {
		h.connect()
		if h.broken != "" {
			r.Inconclusive(h.broken)
			return
		}
		h.takeEvents()
		before := h.a.sleepMgr.GetState()
		effWake := before != sleep.StateAwake // the kind that changes the current state

		var acted []int
		for i, x := range gens {
			if x.acts >= 1 {
				acted = append(acted, i)
			}
		}
		op := "new"
		switch k := rng.Intn(10); {
		case k < 4 && len(acted) > 0:
			op = "replay"
		case k < 6:
			op = "forged"
		case k < 8 && h.canSign && !effWake:
			op = "trigger"
		}
		if op == "trigger" {
			// the agent originates a signed sleep command itself; what its peers receive is a
			// command that has taken effect on this agent once
			if err := h.a.TriggerSleep(); err != nil {
				r.Inconclusive("TriggerSleep: " + err.Error())
				return
			}
			rx := h.barrier()
			if h.broken != "" {
				r.Inconclusive(h.broken)
				return
			}
			sleeps, wakes := h.takeEvents()
			got := 0
			for _, fr := range rx {
				if fr.Type != protocol.FrameSleepCommand {
					continue
				}
				d, err := protocol.DecodeSleepCommand(fr.Payload)
				if err != nil {
					continue
				}
				c := (&c28Cmd{Origin: d.OriginAgent, ID: d.CommandID, TS: d.Timestamp, Sig: d.Signature, Class: "valid", TSIn: true}).as(false, g.good.PublicKey)
				if got == 0 && c.valid() && sleeps > 0 {
					gens = append(gens, &c29AGen{cmd: c, acts: 1, firstVia: "local-trigger"})
					r.Add("first_acts", 1)
					r.Add("locally_triggered", 1)
				}
				got++
			}
			steps = append(steps, c29AStep{Op: op, Path: "TriggerSleep", Cmd: len(gens) - 1, Type: "sleep", Before: before.String(), Sleeps: sleeps, Wakes: wakes, Forwards: got})
			fp += fmt.Sprintf("trigger/%d/%d/%d;", sleeps, wakes, got)
			continue
		}
		queued := rng.Bool()
		var c *c28Cmd
		idx := -1
		switch op {
		case "new":
			c = g.genuine(effWake)
			gens = append(gens, &c29AGen{cmd: c})
			idx = len(gens) - 1
		case "replay":
			idx = verifkit.Pick(rng, acted)
			c = gens[idx].cmd.as(effWake, g.good.PublicKey)
			if !c.valid() {
				// the signed bytes differ per frame type on this tree: not the same command
				c = gens[idx].cmd.as(gens[idx].cmd.Wake, g.good.PublicKey)
			}
		default:
			var base *c28Cmd
			if len(gens) > 0 && rng.Bool() {
				base = verifkit.Pick(rng, gens).cmd
			}
			c = g.invalid(verifkit.Pick(rng, c28InvalidClasses), effWake, base)
		}
		c.SeenBy = c28SeenBy(rng, h, false)
		path, run := frameFor(c, queued)
		run()
		rx := h.barrier()
		if h.broken != "" {
			r.Inconclusive(h.broken)
			return
		}
		sleeps, wakes := h.takeEvents()
		fw := len(c28RxTuples(rx))
		steps = append(steps, c29AStep{Op: op, Path: path, Cmd: idx, Type: c.typ(), Before: before.String(), Sleeps: sleeps, Wakes: wakes, Forwards: fw})
		fp += fmt.Sprintf("%s/%s/%d/%d/%d;", op, path, sleeps, wakes, fw)
		didAct := sleeps > 0 || wakes > 0 || fw > 0
		via := "frame"
		if queued {
			via = "queued-state"
		}
		switch op {
		case "new":
			if didAct {
				gens[idx].acts++
				gens[idx].firstVia = via
				r.Add("first_acts", 1)
			}
		case "replay":
			replays++
			r.Add("replays_judged", 1)
			if queued {
				r.Add("replays_via_queued_state", 1)
			}
			if c.Wake != gens[idx].cmd.Wake {
				r.Add("replays_other_frame_type", 1)
			}
			if didAct {
				key := "agent:replay-acted:first-via-" + gens[idx].firstVia + ":replay-via-" + via
				if c.Wake != gens[idx].cmd.Wake {
					key += ":other-frame-type"
				}
				sym := "forwarded-only"
				if sleeps > 0 {
					sym = "slept"
				} else if wakes > 0 {
					sym = "woke"
				}
				r.Violation(key+":"+sym, phase, ci,
					fmt.Sprintf("signed command #%d, which had already taken effect, took effect again when replayed via %s", idx, path), steps)
			}
		}
	}
	r.Eval(fp, replays > 0)
	if replays > 0 && r.NeedSample() {
		r.Sample(steps)
	}
}
