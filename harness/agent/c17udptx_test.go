package agent

// C17, UDP associations through a transit that is also a UDP exit (part mesh-udp-transit-exit).
//
// A and B both dial T; T relays A's associations to the exit E and is itself the exit of B's
// associations. Both connections number their streams alike, so every UDP_CLOSE that A sends for
// a relayed association carries the stream id of an association that terminates on T. Relay
// table and exit association table are different tables; after all clients have closed (A's
// first, while B's associations with the same ids still exist) every agent's UDP bookkeeping must
// be empty. (What a colliding close does to B's association is the C16 stream-id finding and is
// not judged here; only what is LEFT is.)

import (
	"fmt"
	"net"
	"os"
	"testing"
	"time"

	"github.com/postalsys/muti-metroo/internal/config"
	"github.com/postalsys/muti-metroo/internal/verifkit"
)

func TestVerif_C17_UDPTransitExit(t *testing.T) {
	r := verifkit.Start(t, "C17", "mesh-udp-transit-exit")
	if !mkHooksPresent() {
		r.Inconclusive("frame tap hooks not compiled in (build tag verif)")
		return
	}
	r.Rule("topology A,B -> T -> E, T is UDP exit for B's destinations and UDP transit for A's; k associations from each ingress under the same stream ids exchange datagrams with an echo server; A's clients close first, then B's; " +
		"then the UDP bookkeeping of every agent (relay indices, exit associations, ingress tables) is sampled until all-zero (udp idle timeout 120 s, so only the closes themselves can release entries; 9 s of unchanged non-zero = violation); " +
		"non-trivial = scenario in which both a relayed and a terminating association were seen at T before the closes; distinct by (k, datagrams)")
	spec := mkSpec{Names: []string{"A", "B", "T", "E"}, Edges: [][2]int{{0, 2}, {1, 2}, {2, 3}}}
	r.Cases("udp-transit-exit", r.N(4, 30), func(ci int, rng *verifkit.Rand) {
		echo, err := mkStartUDPEcho()
		if err != nil {
			r.Inconclusive(err.Error())
			return
		}
		defer echo.pc.Close()
		sp := spec
		sp.Cfg = func(i int, c *config.Config) {
			c.Connections.IdleThreshold = 30 * time.Second
			c.UDP.Enabled = true
			c.UDP.IdleTimeout = 120 * time.Second // idle cleanup must not do the work of the closes
			switch i {
			case 0, 1:
				c.SOCKS5.Enabled = true
				c.SOCKS5.Address = "127.0.0.1:0"
			case 2:
				c.Exit.Enabled = true
				c.Exit.Routes = []string{"127.2.0.0/16"}
			case 3:
				c.Exit.Enabled = true
				c.Exit.Routes = []string{"127.3.0.0/16", "0.0.0.0/0"} // the default route is what lets an ingress create associations at all
			}
		}
		m, err := mkBuild(t, sp)
		if err != nil {
			r.Inconclusive("mesh did not come up: " + err.Error())
			return
		}
		defer m.stop()
		for _, w := range [][3]any{{0, "127.3.0.9", 3}, {0, "127.2.0.9", 2}, {1, "127.2.0.9", 2}, {1, "127.3.0.9", 3}} {
			if err := m.waitRoute(w[0].(int), w[1].(string), w[2].(int), 60*time.Second); err != nil {
				r.Inconclusive(err.Error())
				return
			}
		}
		k := rng.Range(1, 4)
		nd := rng.Range(4, 20)
		open := func(in int, net2 byte, base uint64) []*mkUDPClient {
			var cs []*mkUDPClient
			for i := 0; i < k; i++ {
				c, err := mkSocksUDPAssociate(m.nodes[in].a.SOCKS5Address().String(), base+uint64(i)+1)
				if err != nil {
					continue
				}
				for d := 0; d < nd; d++ {
					if err := c.send(net.IPv4(127, net2, byte(1+i), byte(1+rng.Intn(200))), echo.port, uint64(d), []int{1, 100, 600}[rng.Intn(3)], rng); err != nil && d == 0 {
						fmt.Fprintf(os.Stderr, "c17udptx: send error: %v\n", err)
					}
					time.Sleep(time.Millisecond)
				}
				cs = append(cs, c)
			}
			return cs
		}
		ca := open(0, 3, uint64(ci)<<16)        // relayed through T to E
		cb := open(1, 2, uint64(ci)<<16|0x8000) // terminate on T
		time.Sleep(300 * time.Millisecond)
		bt := mkUDPBookOf(m.nodes[2].a)
		
		replies := 0
		for _, c := range append(append([]*mkUDPClient{}, ca...), cb...) {
			c.mu.Lock()
			replies += c.replies
			c.mu.Unlock()
		}
		for _, c := range ca {
			c.close()
		}
		time.Sleep(time.Duration(100+rng.Intn(300)) * time.Millisecond)
		for _, c := range cb {
			c.close()
		}
		last, zero, unchanged := mkUDPSettle(m.nodes, 40*time.Second, 9*time.Second)
		r.Add("udp_transit_exit_scenarios", 1)
		r.Add("udp_replies_received", replies)
		r.Add("udp_relay_entries_seen_at_transit", bt.RelayUp)
		r.Add("udp_exit_associations_seen_at_transit", bt.ExitAssoc)
		if !zero {
			if unchanged < 9*time.Second {
				r.Inconclusive(fmt.Sprintf("udp-transit-exit: bookkeeping still changing when the settle watchdog fired: %+v", last))
			} else {
				desc := ""
				syms := map[string]bool{}
				for i, b := range last {
					if b == (mkUDPBook{}) {
						continue
					}
					desc += fmt.Sprintf("%s:%+v ", m.nodes[i].name, b)
					if b.RelayUp != 0 || b.RelayDown != 0 {
						syms["udp-relay-entries-remain"] = true
					}
					if b.ExitAssoc != 0 {
						syms["udp-exit-associations-remain"] = true
					}
					if b.IngressBase != 0 || b.IngressLocal != 0 {
						syms["udp-ingress-entries-remain"] = true
					}
				}
				for s := range syms {
					r.Violation("udp-transit-exit:"+s, "udp-transit-exit", ci, fmt.Sprintf("%d relayed (A->T->E) and %d terminating (B->T) associations under the same stream ids; A's clients closed first, then B's; UDP bookkeeping stayed non-zero and unchanged for %v: %s", len(ca), len(cb), unchanged.Round(time.Second), desc), nil)
				}
			}
		}
		r.Eval(fmt.Sprintf("udp-transit-exit/%d/%d", k, nd), bt.RelayUp > 0 && bt.ExitAssoc > 0)
		if r.NeedSample() {
			r.Sample(map[string]any{"associations_per_ingress": k, "datagrams_each": nd, "replies": replies, "transit_book_before_close": bt, "settled_all_zero": zero})
		}
	})
	r.Require("udp_relay_entries_seen_at_transit", 2)
	r.Require("udp_exit_associations_seen_at_transit", 2)
}
