package agent

// C32 (agent part) — tearing down a connection that is no longer the registered one never
// removes routes, relay entries or the registration belonging to the current connection.
//
// System under test: real Agents (A under observation, B an exit behind which an optional C
// lives) wired together by the in-memory transport: connections are injected through the
// agents' own peer managers (ConnectWithTransport / handleIncomingConnection), everything
// above the transport is the production code path (handshake, flooding, routing tables,
// handlePeerDisconnect).
//
// Monitor: hook points peer.disconnect.enter/exit (proposed/C32/hook.diff) of A's peer
// manager, A's routing tables (CIDR + agent presence routes by next hop), A's TCP relay
// table and A's peer registration. The enter point doubles as the rendez-vous that holds
// the second teardown notification of a dead connection until the replacement connection is
// registered, has re-learned the routes and carries relay entries.
//
// Oracle: for every handleDisconnect(X) that starts while a different, open connection Y is
// registered for X's identity: the routes via that identity, the relay entries involving it
// and the registration present immediately before are all still present after it returned.

import (
	"bytes"
	"context"
	"runtime"
	"errors"
	"fmt"
	"os"
	"path/filepath"
	"sort"
	"strconv"
	"strings"
	"sync"
	"testing"
	"time"

	"github.com/postalsys/muti-metroo/internal/c32memnet"
	"github.com/postalsys/muti-metroo/internal/config"
	"github.com/postalsys/muti-metroo/internal/identity"
	"github.com/postalsys/muti-metroo/internal/peer"
	"github.com/postalsys/muti-metroo/internal/transport"
	"github.com/postalsys/muti-metroo/internal/verifhook"
	"github.com/postalsys/muti-metroo/internal/verifkit"
)

const c32aWatchdog = 30 * time.Second

type c32aSink interface {
	enter(conn *peer.Connection)
	exit(conn *peer.Connection)
}

var (
	c32aSinks  sync.Map // identity.AgentID -> c32aSink
	c32aOnce   sync.Once
	c32aEnters struct {
		sync.Mutex
		n int
	}
)

func c32aInstallHooks() {
	c32aOnce.Do(func() {
		get := func(args []any) (c32aSink, *peer.Connection) {
			if len(args) < 2 {
				return nil, nil
			}
			id, ok1 := args[0].(identity.AgentID)
			conn, ok2 := args[1].(*peer.Connection)
			if !ok1 || !ok2 {
				return nil, nil
			}
			if s, ok := c32aSinks.Load(id); ok {
				return s.(c32aSink), conn
			}
			return nil, conn
		}
		verifhook.Set("peer.disconnect.enter", func(args ...any) {
			c32aEnters.Lock()
			c32aEnters.n++
			c32aEnters.Unlock()
			if s, c := get(args); s != nil {
				s.enter(c)
			}
		})
		verifhook.Set("peer.disconnect.exit", func(args ...any) {
			if s, c := get(args); s != nil {
				s.exit(c)
			}
		})
	})
}

// c32aGoid: id of the calling goroutine; the enter and exit hook points of one
// handleDisconnect call run on the same goroutine and are paired by it.
func c32aGoid() uint64 {
	var buf [64]byte
	b := buf[:runtime.Stack(buf[:], false)]
	b = bytes.TrimPrefix(b, []byte("goroutine "))
	if i := bytes.IndexByte(b, ' '); i > 0 {
		b = b[:i]
	}
	v, _ := strconv.ParseUint(string(b), 10, 64)
	return v
}

type c32aTeardown struct {
	goid    uint64
	conn    *peer.Connection
	nth     int
	release chan struct{}
	exited  chan struct{}
	// filled when the teardown is let through
	stale      bool
	registered *peer.Connection
	before     c32aSnapshot
}

type c32aSnapshot struct {
	Routes []string `json:"routes_via_peer"`
	Relays []string `json:"relay_entries_with_peer"`
}

type c32aWorld struct {
	r     *verifkit.R
	phase string
	ci    int
	net   *c32memnet.Net
	a, b  *Agent
	c     *Agent
	trA   *c32memnet.Transport
	trB   *c32memnet.Transport
	trC   *c32memnet.Transport

	mu        sync.Mutex
	memA      map[uint64]*c32memnet.Conn
	teardowns []*c32aTeardown
	holdNext  map[*peer.Connection]int
	steps     []string
	broken    bool
}

func c32aSerial(addr string) uint64 {
	i := strings.LastIndexByte(addr, '#')
	if i < 0 {
		return 0
	}
	v, _ := strconv.ParseUint(addr[i+1:], 10, 64)
	return v
}

func c32aClosed(c *peer.Connection) bool {
	select {
	case <-c.Done():
		return true
	default:
		return false
	}
}

func (w *c32aWorld) logf(f string, a ...any) {
	w.mu.Lock()
	w.steps = append(w.steps, fmt.Sprintf(f, a...))
	w.mu.Unlock()
}

// snapshot lists what A holds for peer id: routes whose next hop is id, relay entries with id.
func (w *c32aWorld) snapshot(id identity.AgentID) c32aSnapshot {
	var s c32aSnapshot
	for _, rt := range w.a.routeMgr.Table().GetAllRoutes() {
		if rt.NextHop == id {
			s.Routes = append(s.Routes, "cidr "+rt.Network.String()+" origin "+rt.OriginAgent.ShortString())
		}
	}
	for _, rt := range w.a.routeMgr.AgentTable().GetAllRoutes() {
		if rt.NextHop == id {
			s.Routes = append(s.Routes, "agent "+rt.AgentID.ShortString())
		}
	}
	sort.Strings(s.Routes)
	w.a.tcpRelay.mu.RLock()
	for _, e := range w.a.tcpRelay.byUpstream {
		if e.UpstreamPeer == id || e.DownstreamPeer == id {
			s.Relays = append(s.Relays, fmt.Sprintf("up %d down %d", e.UpstreamID, e.DownstreamID))
		}
	}
	w.a.tcpRelay.mu.RUnlock()
	sort.Strings(s.Relays)
	return s
}

func c32aMissing(before, after []string) []string {
	have := map[string]bool{}
	for _, x := range after {
		have[x] = true
	}
	var miss []string
	for _, x := range before {
		if !have[x] {
			miss = append(miss, x)
		}
	}
	return miss
}

func (w *c32aWorld) enter(conn *peer.Connection) {
	w.mu.Lock()
	n := 1
	for _, t := range w.teardowns {
		if t.conn == conn {
			n++
		}
	}
	td := &c32aTeardown{goid: c32aGoid(), conn: conn, nth: n, exited: make(chan struct{})}
	if w.holdNext[conn] == n {
		td.release = make(chan struct{})
	}
	w.teardowns = append(w.teardowns, td)
	w.mu.Unlock()
	if td.release != nil {
		<-td.release
	}
	reg := w.a.peerMgr.GetPeer(conn.RemoteID)
	stale := reg != nil && reg != conn && !c32aClosed(reg)
	var snap c32aSnapshot
	if stale {
		snap = w.snapshot(conn.RemoteID)
	}
	w.mu.Lock()
	td.registered, td.stale, td.before = reg, stale, snap
	w.mu.Unlock()
}

func (w *c32aWorld) exit(conn *peer.Connection) {
	gid := c32aGoid()
	w.mu.Lock()
	defer w.mu.Unlock()
	for i := len(w.teardowns) - 1; i >= 0; i-- {
		t := w.teardowns[i]
		if t.conn != conn || t.goid != gid {
			continue
		}
		select {
		case <-t.exited:
			continue
		default:
		}
		close(t.exited)
		return
	}
}

func (w *c32aWorld) waitFor(what string, cond func() bool) bool {
	deadline := time.Now().Add(c32aWatchdog)
	for !cond() {
		if time.Now().After(deadline) {
			w.r.Inconclusive(fmt.Sprintf("watchdog while waiting for: %s (case %s:%d)", what, w.phase, w.ci))
			w.broken = true
			return false
		}
		time.Sleep(200 * time.Microsecond)
	}
	return true
}

func c32aAgent(dir, name string, exitRoutes []string, keepalive time.Duration) (*Agent, error) {
	cfg := config.Default()
	cfg.Agent.DataDir = filepath.Join(dir, name)
	if err := os.MkdirAll(cfg.Agent.DataDir, 0o700); err != nil {
		return nil, err
	}
	cfg.Agent.LogLevel = "error"
	cfg.Agent.DisplayName = name
	cfg.UDP.Enabled = false
	cfg.ICMP.Enabled = false
	cfg.Connections.IdleThreshold = keepalive
	cfg.Connections.KeepaliveJitter = 0
	cfg.Connections.Reconnect.InitialDelay = 3 * time.Millisecond
	cfg.Connections.Reconnect.MaxDelay = 12 * time.Millisecond
	cfg.Connections.Reconnect.Multiplier = 2
	cfg.Connections.Reconnect.Jitter = 0
	if len(exitRoutes) > 0 {
		cfg.Exit.Enabled = true
		cfg.Exit.Routes = exitRoutes
	}
	a, err := New(cfg)
	if err != nil {
		return nil, err
	}
	if err := a.Start(); err != nil {
		return nil, err
	}
	return a, nil
}

func (w *c32aWorld) serve(name string, a *Agent) {
	w.net.Handle(name, func(pc transport.PeerConn) {
		a.wg.Add(1)
		a.handleIncomingConnection(pc)
	})
}

var errC32aWrite = errors.New("c32: scripted write failure")

func TestVerif_C32Agent(t *testing.T) {
	r := verifkit.Start(t, "C32", "agent")
	r.Rule("one case = real agents A-B(-C) over the in-memory transport, B (and C) advertising PRNG exit routes; A's connection to B is broken by a " +
		"keepalive-send failure (both loops then report the dead connection); the second report is held at the hook until the replacement connection is " +
		"registered, A has re-learned the routes via B and relay entries over the new connection exist, then released; " +
		"non-trivial = a stale teardown was judged with >=1 route and >=1 relay entry at stake; distinct by topology/direction/routes")
	if !verifhook.Enabled {
		r.Inconclusive("verifhook not compiled in (build tag verif missing)")
		return
	}
	c32aInstallHooks()
	if !c32aHookProbe() {
		r.Inconclusive("hook not reached: peer.disconnect.enter/exit are not in this tree (apply proposed/C32/hook.diff)")
		return
	}
	dir := t.TempDir()
	n := r.N(150, 2500)
	r.ParCases("mesh", n, 6, func(ci int, rng *verifkit.Rand) { c32aCase(r, "mesh", ci, rng, filepath.Join(dir, fmt.Sprintf("c%d", ci))) })
	c32aEnters.Lock()
	enters := c32aEnters.n
	c32aEnters.Unlock()
	if enters == 0 {
		r.Inconclusive("hook not reached: peer.disconnect.enter/exit are not in this tree (apply proposed/C32/hook.diff)")
		return
	}
	if bad := r.Counter("cases_setup_not_converged"); bad*100 > int64(n) {
		r.Inconclusive(fmt.Sprintf("%d of %d meshes did not converge during setup", bad, n))
	}
	r.Require("stale_teardowns_judged", 25)
	r.Require("routes_at_stake", 50)
	r.Require("relay_entries_at_stake", 25)
}

func c32aCase(r *verifkit.R, phase string, ci int, rng *verifkit.Rand, dir string) {
	w := &c32aWorld{r: r, phase: phase, ci: ci, net: c32memnet.New(), memA: map[uint64]*c32memnet.Conn{}, holdNext: map[*peer.Connection]int{}}
	nextNet := 0
	mkRoutes := func(n int) []string {
		var out []string
		for i := 0; i < n; i++ {
			// distinct by construction (second octet is a running index)
			nextNet++
			out = append(out, fmt.Sprintf("10.%d.%d.0/24", 10*nextNet+rng.Range(0, 9), rng.Range(0, 250)))
		}
		return out
	}
	bRoutes := mkRoutes(rng.Range(1, 3))
	withC := rng.Chance(1, 3)
	inbound := rng.Chance(1, 3) // B dials A instead of A dialing B
	var err error
	if w.a, err = c32aAgent(dir, "A", nil, 4*time.Millisecond); err != nil {
		r.Inconclusive("cannot start agent A: " + err.Error())
		return
	}
	if w.b, err = c32aAgent(dir, "B", bRoutes, time.Hour); err != nil {
		r.Inconclusive("cannot start agent B: " + err.Error())
		return
	}
	agents := []*Agent{w.a, w.b}
	var cRoutes []string
	if withC {
		cRoutes = mkRoutes(rng.Range(1, 2))
		if w.c, err = c32aAgent(dir, "C", cRoutes, time.Hour); err != nil {
			r.Inconclusive("cannot start agent C: " + err.Error())
			return
		}
		agents = append(agents, w.c)
	}
	c32aSinks.Store(w.a.id, c32aSink(w))
	defer func() {
		c32aSinks.Delete(w.a.id)
		w.mu.Lock()
		for _, t := range w.teardowns {
			if t.release != nil {
				select {
				case <-t.release:
				default:
					close(t.release)
				}
			}
		}
		w.mu.Unlock()
		for _, n := range []string{"A", "B", "C"} {
			w.net.Handle(n, nil)
		}
		w.mu.Lock()
		mems := make([]*c32memnet.Conn, 0, len(w.memA))
		for _, c := range w.memA {
			mems = append(mems, c)
		}
		w.mu.Unlock()
		for _, c := range mems {
			c.Sever()
			c.Close()
		}
		for _, ag := range agents {
			ctx, cancel := context.WithTimeout(context.Background(), 20*time.Second)
			if err := ag.StopWithContext(ctx); err != nil {
				r.Add("agent_stop_timeouts(info)", 1)
			}
			cancel()
		}
	}()
	w.trA, w.trB, w.trC = w.net.Transport("A"), w.net.Transport("B"), w.net.Transport("C")
	w.trA.OnDialed = func(d, a *c32memnet.Conn) {
		w.mu.Lock()
		w.memA[d.Serial] = d
		w.mu.Unlock()
	}
	w.trB.OnDialed = func(d, a *c32memnet.Conn) {
		if strings.HasPrefix(a.LocalAddr().String(), "A#") {
			w.mu.Lock()
			w.memA[a.Serial] = a
			w.mu.Unlock()
		}
	}
	w.serve("A", w.a)
	w.serve("B", w.b)
	if withC {
		w.serve("C", w.c)
	}
	idB := w.b.id
	connect := func(from *Agent, tr *c32memnet.Transport, addr string, expect identity.AgentID) {
		from.peerMgr.AddPeer(peer.PeerInfo{Address: addr, ExpectedID: expect, Persistent: true, Transport: tr})
		ctx, cancel := context.WithTimeout(context.Background(), 10*time.Second)
		defer cancel()
		if _, err := from.peerMgr.ConnectWithTransport(ctx, tr, addr); err != nil {
			w.logf("connect to %s failed: %v", addr, err)
		}
	}
	if withC {
		connect(w.c, w.trC, "B", idB)
	}
	if inbound {
		connect(w.b, w.trB, "A", w.a.id)
	} else {
		connect(w.a, w.trA, "B", idB)
	}
	w.logf("topology A-B%s, %s, B exits %v, C exits %v", map[bool]string{true: "-C", false: ""}[withC],
		map[bool]string{true: "B dials A", false: "A dials B"}[inbound], bRoutes, cRoutes)

	want := len(bRoutes) + len(cRoutes)
	learned := func() bool {
		n := 0
		for _, rt := range w.a.routeMgr.Table().GetAllRoutes() {
			if rt.NextHop == idB {
				n++
			}
		}
		return n >= want
	}
	// setup convergence is not what this check judges: a case whose mesh does not converge is
	// skipped and counted (the run is inconclusive only if that happens in more than 1% of cases)
	converged := func() bool {
		deadline := time.Now().Add(c32aWatchdog)
		for !learned() {
			if time.Now().After(deadline) {
				return false
			}
			time.Sleep(200 * time.Microsecond)
		}
		return true
	}
	if !converged() {
		r.Add("cases_setup_not_converged", 1)
		var have []string
		for _, rt := range w.a.routeMgr.Table().GetAllRoutes() {
			have = append(have, rt.Network.String()+" via "+rt.NextHop.ShortString())
		}
		r.Set("diagnostic_routes_never_learned", map[string]any{"case": ci, "steps": w.steps, "want": want, "A_routes": have,
			"A_peers": len(w.a.peerMgr.GetAllPeers()), "B_peers": len(w.b.peerMgr.GetAllPeers()), "B_id": idB.ShortString(),
			"B_local_routes": len(w.b.routeMgr.GetLocalRoutes())})
		return
	}
	rounds := rng.Range(1, 3)
	judgedStale, routesAtStake, relaysAtStake := 0, 0, 0
	for round := 0; round < rounds && !w.broken; round++ {
		x := w.a.peerMgr.GetPeer(idB)
		if x == nil || c32aClosed(x) {
			if !w.waitFor("A to have an open connection to B", func() bool {
				x = w.a.peerMgr.GetPeer(idB)
				return x != nil && !c32aClosed(x)
			}) {
				return
			}
		}
		xs := c32aSerial(x.LocalAddr())
		w.mu.Lock()
		mem := w.memA[xs]
		w.holdNext[x] = 2
		w.mu.Unlock()
		if mem == nil {
			r.Inconclusive("in-memory end of A's connection not found")
			return
		}
		// A's writes on X fail: the keepalive loop closes X and reports it; the read loop
		// then reports it a second time.
		mem.FailWrites(errC32aWrite)
		w.logf("round %d: writes of A on conn#%d fail", round, xs)
		var held *c32aTeardown
		// give-up timer: x may die of another cause first (e.g. B rejected it as a duplicate of a
		// connection it had not torn down yet), then only one notification comes; that is a
		// scenario that did not materialise, not a verdict
		giveUp := time.Now().Add(3 * time.Second)
		gaveUp := false
		if !w.waitFor("the second teardown notification of the dead connection to reach the hook", func() bool {
			w.mu.Lock()
			defer w.mu.Unlock()
			for _, t := range w.teardowns {
				if t.conn == x && t.nth == 2 {
					held = t
					return true
				}
			}
			if time.Now().After(giveUp) {
				gaveUp = true
				return true
			}
			return false
		}) {
			return
		}
		if gaveUp {
			w.mu.Lock()
			delete(w.holdNext, x)
			w.mu.Unlock()
			r.Add("rounds_without_second_notification", 1)
			w.logf("round %d: no second teardown notification for conn#%d", round, xs)
			continue
		}
		r.Add("second_teardown_notifications_held", 1)
		// the replacement comes from the dialing side's reconnector
		// (setup of the scenario, not a verdict: counted and skipped if it does not converge)
		okRepl := func() bool {
			deadline := time.Now().Add(c32aWatchdog)
			for {
				y := w.a.peerMgr.GetPeer(idB)
				if y != nil && y != x && !c32aClosed(y) && learned() {
					return true
				}
				if time.Now().After(deadline) {
					return false
				}
				time.Sleep(200 * time.Microsecond)
			}
		}()
		if !okRepl {
			r.Add("cases_setup_not_converged", 1)
			w.logf("round %d: replacement connection / routes did not converge", round)
			return
		}
		y := w.a.peerMgr.GetPeer(idB)
		// relay entries of streams opened over the new connection (transit state of A)
		nrel := rng.Range(1, 3)
		var other identity.AgentID
		rng.Fill(other[:])
		for i := 0; i < nrel; i++ {
			e := &relayEntry{UpstreamPeer: other, UpstreamID: uint64(1000*(round+1) + 2*i + 1), DownstreamPeer: idB, DownstreamID: y.NextStreamID()}
			if rng.Bool() {
				e.UpstreamPeer, e.DownstreamPeer = idB, other
			}
			w.a.tcpRelay.Insert(e)
		}
		w.logf("round %d: replacement conn#%d registered, routes re-learned, %d relay entries inserted; releasing held teardown of conn#%d",
			round, c32aSerial(y.LocalAddr()), nrel, xs)
		close(held.release)
		if !w.waitFor("the held teardown to return", func() bool {
			select {
			case <-held.exited:
				return true
			default:
				return false
			}
		}) {
			return
		}
		w.mu.Lock()
		stale, before, reg := held.stale, held.before, held.registered
		w.mu.Unlock()
		r.Add("teardowns_released", 1)
		if !stale {
			// the replacement died in between; nothing to judge in this round
			r.Add("released_teardown_not_stale", 1)
			continue
		}
		judgedStale++
		routesAtStake += len(before.Routes)
		relaysAtStake += len(before.Relays)
		r.Add("stale_teardowns_judged", 1)
		r.Add("routes_at_stake", len(before.Routes))
		r.Add("relay_entries_at_stake", len(before.Relays))
		after := w.snapshot(idB)
		now := w.a.peerMgr.GetPeer(idB)
		wit := map[string]any{"before": before, "after": after, "steps": w.steps}
		if miss := c32aMissing(before.Routes, after.Routes); len(miss) > 0 {
			r.Violation("stale-teardown:routes-of-current-connection-removed", phase, ci,
				fmt.Sprintf("the late second teardown notification of conn#%d removed %d of %d routes learned over the current connection conn#%d: %v",
					xs, len(miss), len(before.Routes), c32aSerial(reg.LocalAddr()), miss), wit)
			w.broken = true
		}
		if miss := c32aMissing(before.Relays, after.Relays); len(miss) > 0 {
			r.Violation("stale-teardown:relay-entries-of-current-connection-removed", phase, ci,
				fmt.Sprintf("the late second teardown notification of conn#%d removed %d of %d relay entries of streams over the current connection conn#%d",
					xs, len(miss), len(before.Relays), c32aSerial(reg.LocalAddr())), wit)
			w.broken = true
		}
		if now != reg || c32aClosed(reg) {
			r.Violation("stale-teardown:registration-of-current-connection-removed", phase, ci,
				fmt.Sprintf("after the late teardown of conn#%d the current connection conn#%d is no longer registered/open", xs, c32aSerial(reg.LocalAddr())), wit)
			w.broken = true
		}
	}
	w.mu.Lock()
	fp := strings.Join(w.steps, ";")
	w.mu.Unlock()
	r.Eval(fp, judgedStale > 0 && routesAtStake > 0 && relaysAtStake > 0)
	if r.NeedSample() && judgedStale > 0 {
		r.Sample(map[string]any{"steps": w.steps, "stale_teardowns": judgedStale, "routes_at_stake": routesAtStake, "relay_entries_at_stake": relaysAtStake})
	}
}

// c32aHookProbe: one connection on a throw-away peer.Manager, closed by the remote end; did
// the teardown pass the peer.disconnect.enter hook point?
func c32aHookProbe() bool {
	net := c32memnet.New()
	var idA, idB identity.AgentID
	idA[0], idB[0] = 0xA1, 0xB1
	hsB := peer.NewHandshaker(idB, "probe", nil, 5*time.Second)
	ends := make(chan *peer.Connection, 1)
	net.Handle("B", func(pc transport.PeerConn) {
		ctx, cancel := context.WithTimeout(context.Background(), 5*time.Second)
		defer cancel()
		if c, err := hsB.AcceptHandshake(ctx, pc, peer.DefaultConnectionConfig(idB)); err == nil {
			ends <- c
		}
	})
	cfg := peer.DefaultManagerConfig(idA, net.Transport("A"))
	gone := make(chan struct{}, 4)
	cfg.OnPeerDisconnect = func(*peer.Connection, error) { gone <- struct{}{} }
	m := peer.NewManager(cfg)
	defer m.Close()
	c32aEnters.Lock()
	before := c32aEnters.n
	c32aEnters.Unlock()
	ctx, cancel := context.WithTimeout(context.Background(), 5*time.Second)
	defer cancel()
	if _, err := m.Connect(ctx, "B"); err != nil {
		return false
	}
	select {
	case e := <-ends:
		e.Close()
	case <-time.After(10 * time.Second):
		return false
	}
	select {
	case <-gone:
	case <-time.After(10 * time.Second):
		return false
	}
	c32aEnters.Lock()
	defer c32aEnters.Unlock()
	return c32aEnters.n > before
}
