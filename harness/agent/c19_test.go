package agent

// C19 (agent part) — a real Agent: exit configuration from config.Config, dynamic routes through
// the real Agent.ManageRoute (add / add-again (metric update) / remove / list, in several
// spellings of the same network), crafted STREAM_OPEN frames through the real
// Agent.handleStreamOpen (address types IPv4, IPv6 incl. IPv4-mapped, domain incl. IP literals).
//
// Monitor: accepts on real loopback listeners (kitSink; local address of the accepted socket =
// dialled destination). The agent's exit handler gets a recording StreamWriter (SetWriter) so
// the harness knows when a request has been decided; the reply is never a verdict.
// Oracle: every accepted connection must be justified by what is present *now*: the configured
// exit networks, the dynamic routes that ManageRoute("list") itself reports at that moment, or an
// allowed domain pattern. In-package only for a.exitHandler / a.handleStreamOpen.

import (
	"context"
	"fmt"
	"net"
	"net/netip"
	"os"
	"sort"
	"strings"
	"sync"
	"sync/atomic"
	"testing"
	"time"

	"github.com/postalsys/muti-metroo/internal/config"
	"github.com/postalsys/muti-metroo/internal/crypto"
	"github.com/postalsys/muti-metroo/internal/exit"
	"github.com/postalsys/muti-metroo/internal/identity"
	"github.com/postalsys/muti-metroo/internal/protocol"
	"github.com/postalsys/muti-metroo/internal/verifkit"
)

var c19aNames = map[string]string{
	"api.test.local":  "127.50.0.1",
	"db.test.local":   "127.50.0.2",
	"foo.svc.test":    "127.60.0.1",
	"a.b.svc.test":    "127.60.0.3",
	"svc.test":        "127.60.0.4",
	"evil.test":       "127.70.0.1",
	"foo.notsvc.test": "127.70.0.3",
	"notsvc.test":     "127.70.0.2",
}

var c19aPatterns = []string{"api.test.local", "*.svc.test", "*.test.local", "evil.test"}

type c19aStep struct {
	Op     string   `json:"op"`
	Net    string   `json:"net,omitempty"`
	Metric int      `json:"metric,omitempty"`
	Result string   `json:"result,omitempty"`
	Listed []string `json:"listed,omitempty"`
	Req    string   `json:"req,omitempty"`
	Type   string   `json:"type,omitempty"`
	Reply  string   `json:"reply,omitempty"`
	Conn   []string `json:"connected,omitempty"`
}

func c19aV4(rng *verifkit.Rand) netip.Addr {
	return netip.AddrFrom4([4]byte{127, byte(1 + rng.Intn(250)), byte(rng.Intn(256)), byte(rng.Intn(256))})
}

// c19aNet6 / c19aShort4: default routes and very short prefixes of each family. An IPv6 network
// never covers an IPv4 (or IPv4-mapped) destination and vice versa.
func c19aNet6(rng *verifkit.Rand) netip.Prefix {
	return netip.MustParsePrefix([]string{"::/0", "::/0", "::/0", "::/1", "8000::/1", "::/8", "::/64", "::1/128", "fd00::/8", "2000::/3"}[rng.Intn(10)])
}

func c19aShort4(rng *verifkit.Rand) netip.Prefix {
	return netip.MustParsePrefix([]string{"0.0.0.0/0", "0.0.0.0/1", "0.0.0.0/2", "64.0.0.0/2", "128.0.0.0/1", "127.0.0.0/8", "126.0.0.0/7", "0.0.0.0/8"}[rng.Intn(8)])
}

// c19aAnyNet: mostly networks inside 127/8, sometimes a default/short prefix of either family.
func c19aAnyNet(rng *verifkit.Rand, fam int) netip.Prefix {
	switch {
	case fam == 1:
		return c19aNet6(rng)
	case fam == 2 && rng.Bool():
		return c19aShort4(rng)
	}
	switch rng.Intn(10) {
	case 0, 1:
		return c19aNet6(rng)
	case 2:
		return c19aShort4(rng)
	}
	return c19aNet(rng)
}

func c19aOnlyFamily(nets []netip.Prefix, v4 bool) bool {
	if len(nets) == 0 {
		return false
	}
	for _, p := range nets {
		if (p.Addr().Is4() || p.Addr().Is4In6()) != v4 {
			return false
		}
	}
	return true
}

func c19aNet(rng *verifkit.Rand) netip.Prefix {
	base := c19aV4(rng)
	if rng.Chance(1, 4) {
		names := make([]string, 0, len(c19aNames))
		for k := range c19aNames {
			names = append(names, k)
		}
		sort.Strings(names)
		base = netip.MustParseAddr(c19aNames[names[rng.Intn(len(names))]])
	}
	bits := []int{9, 12, 16, 17, 20, 24, 25, 28, 30, 32}[rng.Intn(10)]
	return netip.PrefixFrom(base, bits).Masked()
}

// c19aSpell: one of several spellings of the same network.
func c19aSpell(p netip.Prefix, rng *verifkit.Rand) string {
	if !p.Addr().Is4() {
		return p.String()
	}
	switch rng.Intn(4) {
	case 0:
		return fmt.Sprintf("::ffff:%s/%d", p.Addr(), 96+p.Bits())
	case 1: // host bits set
		b := p.Addr().As4()
		if p.Bits() < 32 {
			b[3] |= 1
		}
		return fmt.Sprintf("%s/%d", netip.AddrFrom4(b), p.Bits())
	}
	return p.String()
}

func c19aEdge(p netip.Prefix, rng *verifkit.Rand) netip.Addr {
	if !p.Addr().Is4() || p.Bits() < 8 {
		// IPv6 network (cross-family probe) or a prefix shorter than the observable 127/8
		return c19aV4(rng)
	}
	b := p.Masked().Addr().As4()
	first := uint32(b[0])<<24 | uint32(b[1])<<16 | uint32(b[2])<<8 | uint32(b[3])
	size := uint64(1) << uint(32-p.Bits())
	var v uint32
	switch rng.Intn(5) {
	case 0:
		v = first - 1
	case 1:
		v = first
	case 2:
		v = uint32(uint64(first) + size - 1)
	case 3:
		v = uint32(uint64(first) + size)
	default:
		v = uint32(uint64(first) + rng.U64()%size)
	}
	if byte(v>>24) != 127 {
		// never aim outside loopback: a short prefix (0.0.0.0/1, 126.0.0.0/7, ...) may permit it and
		// the exit would then really dial a non-loopback address
		return c19aV4(rng)
	}
	return netip.AddrFrom4([4]byte{byte(v >> 24), byte(v >> 16), byte(v >> 8), byte(v)})
}

func c19aListed(listed []netip.Prefix, p netip.Prefix) bool {
	for _, q := range listed {
		if q == p {
			return true
		}
	}
	return false
}

func c19aInAny(a netip.Addr, nets []netip.Prefix) bool {
	for _, n := range nets {
		if kitContains(n, a) {
			return true
		}
	}
	return false
}

func TestVerif_C19Agent(t *testing.T) {
	r := verifkit.Start(t, "C19", "agent")
	r.Rule("real Agent per case (exit enabled or promoted on demand; 0-3 static networks incl. default routes and very short prefixes of either family, IPv6-only and IPv4-only exits probed with destinations of the other family, 0-2 domain patterns, sometimes nothing configured) x PRNG ManageRoute histories " +
		"(add, add-again with another metric/spelling, remove, remove-absent, remove-static, list; ROUTE_WITHDRAW / ROUTE_ADVERTISE frames from a peer naming the agent itself or others as origin in between) x crafted STREAM_OPEN frames (IPv4, IPv6/IPv4-mapped, domain-typed names and IP literals) through Agent.handleStreamOpen; " +
		"non-trivial = history with >=1 connected probe, >=1 refused probe and >=1 dynamic route change; distinct by (config, steps)")
	r.Assume("hist: route management calls are sequential; conc: only ManageRoute(\"add\") calls overlap, removes and probes follow after all adds returned; 'currently present dynamic routes' = the answer of ManageRoute(\"list\") taken immediately before the probe")

	table := map[string]netip.Addr{}
	for k, v := range c19aNames {
		table[k] = netip.MustParseAddr(v)
	}
	dns, err := newKitDNS(table)
	if err != nil {
		r.Inconclusive("cannot start loopback DNS responder: " + err.Error())
		return
	}
	defer dns.Close()
	sink, err := newKitSink()
	if err != nil {
		r.Inconclusive("cannot open loopback listeners: " + err.Error())
		return
	}
	defer sink.Close()
	root := t.TempDir()

	n := r.N(90, 600)
	r.Cases("hist", n, func(ci int, rng *verifkit.Rand) { c19aHistory(r, ci, rng, sink, dns, root) })

	c19aConcurrent(r, sink, dns, root)

	r.Require("probes", 800)
	r.Require("connected_permitted", 150)
	r.Require("refused_not_permitted", 150)
	r.Require("manage_add_existing", 25)
	r.Require("manage_remove_ok", 35)
	r.Require("manage_remove_after_readd", 8)
	r.Require("probes_into_removed_route", 40)
	r.Require("nothing_configured_probes", 20)
	r.Require("refused_ipv4_dest_by_ipv6_only_config", 60)
	r.Require("ipv6_literal_not_permitted", 20)
	r.Require("rebind_probes_hostile", 15)
	r.Require("zoned_literal_probes", 25)
	r.Require("peer_route_frames", 40)
}

func c19aHistory(r *verifkit.R, ci int, rng *verifkit.Rand, sink *kitSink, dns *kitDNS, root string) {
	dir, err := os.MkdirTemp(root, "a")
	if err != nil {
		r.Inconclusive("tempdir: " + err.Error())
		return
	}
	cfg := config.Default()
	cfg.Agent.DataDir = dir
	cfg.Agent.LogLevel = "error"
	cfg.Connections.IdleThreshold = 30 * time.Second
	cfg.Exit.DNS.Servers = []string{dns.Addr}
	cfg.Exit.DNS.Timeout = 5 * time.Second
	var static []netip.Prefix
	var patterns []string
	mode := rng.Intn(8) // 0: nothing configured, exit disabled; 1: exit enabled with nothing; else enabled + routes
	// family mode: 0 mixed, 1 IPv6-only exit (IPv4 / IPv4-mapped / resolved destinations must all be
	// refused), 2 IPv4 exit of default/short prefixes (IPv6 destinations must be refused)
	fam := 0
	switch rng.Intn(8) {
	case 0, 1:
		fam = 1
	case 2:
		fam = 2
	}
	if mode >= 1 {
		cfg.Exit.Enabled = true
	}
	if mode >= 2 {
		k := rng.Intn(4)
		if fam != 0 && k == 0 {
			k = 1
		}
		for i := 0; i < k; i++ {
			p := c19aAnyNet(rng, fam)
			static = append(static, p)
			cfg.Exit.Routes = append(cfg.Exit.Routes, p.String())
		}
		for i, k := 0, rng.Intn(3); i < k; i++ {
			p := c19aPatterns[rng.Intn(len(c19aPatterns))]
			patterns = append(patterns, p)
			cfg.Exit.DomainRoutes = append(cfg.Exit.DomainRoutes, p)
		}
		if rng.Chance(1, 3) {
			p := []string{"*.svc.test", "*.test.local", "*.example.com"}[rng.Intn(3)]
			patterns = append(patterns, p)
			cfg.Exit.DomainRoutes = append(cfg.Exit.DomainRoutes, p)
		}
	}
	a, err := New(cfg)
	if err != nil {
		r.Inconclusive("agent.New: " + err.Error())
		return
	}
	if err := a.Start(); err != nil {
		r.Inconclusive("agent.Start: " + err.Error())
		return
	}
	defer func() {
		ctx, cancel := context.WithTimeout(context.Background(), kitWatchdog)
		defer cancel()
		if err := a.StopWithContext(ctx); err != nil {
			r.Inconclusive("agent did not stop within the watchdog")
		}
	}()
	rec := newKitWriter()
	var wired *exit.Handler
	wire := func() {
		if a.exitHandler != nil && a.exitHandler != wired {
			a.exitHandler.SetWriter(rec)
			wired = a.exitHandler
		}
	}
	wire()
	if _, ok := sink.barrier(); !ok {
		r.Inconclusive("sink barrier failed (watchdog)")
		return
	}
	_, eph, err := crypto.GenerateEphemeralKeypair()
	if err != nil {
		r.Inconclusive("keygen: " + err.Error())
		return
	}
	var peer identity.AgentID
	rng.Fill(peer[:])

	var steps []c19aStep
	var everAdded, removedNow []netip.Prefix // removedNow: removed and not re-added since
	var removedReadded []netip.Prefix        // subset of removedNow: had >=2 successful adds before the remove
	addCount := map[string]int{}             // successful adds since the route was last absent
	model := map[string]netip.Prefix{}       // what the harness believes is dynamic (only to steer generation)
	streamID := uint64(100)
	nConn, nRef, nChange := 0, 0, 0

	list := func() ([]netip.Prefix, []string, bool) {
		res, err := a.ManageRoute("list", "", 0)
		if err != nil || res == nil {
			r.Inconclusive(fmt.Sprintf("ManageRoute(list) failed: %v", err))
			return nil, nil, false
		}
		var out []netip.Prefix
		var txt []string
		for _, e := range res.Routes {
			txt = append(txt, e.Network)
			if p, ok := kitParseNet(e.Network); ok {
				out = append(out, p)
			} else {
				r.Inconclusive("list returned an unparsable network " + e.Network)
				return nil, nil, false
			}
		}
		sort.Strings(txt)
		return out, txt, true
	}

	probe := func(target *netip.Prefix) bool {
		// ---- build the request
		var addrType uint8
		var addr []byte
		var reqTxt, typ string
		pick := func() netip.Addr {
			if target != nil {
				return c19aEdge(*target, rng)
			}
			pool := append(append(append([]netip.Prefix{}, static...), everAdded...), removedNow...)
			if len(pool) > 0 && rng.Chance(4, 5) {
				return c19aEdge(pool[rng.Intn(len(pool))], rng)
			}
			return c19aV4(rng)
		}
		unknownType := false
		var wild []string
		for _, pt := range patterns {
			if strings.HasPrefix(pt, "*.") {
				wild = append(wild, pt[2:])
			}
		}
		zoned := len(wild) > 0 && rng.Chance(1, 3)
		switch k := rng.Intn(21); {
		case zoned: // zoned IP literal dressed up as a sub-domain of an allowed wildcard (domain-typed)
			ip := pick()
			b := ip.As4()
			hex := fmt.Sprintf("%02x%02x:%02x%02x", b[0], b[1], b[2], b[3])
			base := wild[rng.Intn(len(wild))]
			var sfx string
			switch rng.Intn(6) {
			case 0:
				sfx, typ = "::ffff:"+hex+"%X."+strings.ToUpper(base), "domain-zoned-ipv4-mapped"
			case 1:
				sfx, typ = "::ffff:"+hex+"%25x."+base, "domain-zoned-ipv4-mapped"
			case 2:
				sfx, typ = "0::ffff:"+hex+"%x."+base, "domain-zoned-ipv4-mapped"
			case 3:
				sfx, typ = []string{"::1", "fe80::1", "fd00::1"}[rng.Intn(3)]+"%x."+base, "domain-zoned-ipv6"
			default:
				sfx, typ = "::ffff:"+hex+"%x."+base, "domain-zoned-ipv4-mapped"
			}
			addrType, addr, reqTxt = protocol.AddrTypeDomain, append([]byte{byte(len(sfx))}, sfx...), sfx
			r.Add("zoned_literal_probes", 1)
		case k == 20: // unknown address type carrying an allowed-looking IPv4: must never be served
			ip := pick()
			b := ip.As4()
			addrType, addr, reqTxt, typ = []uint8{0x00, 0x02, 0x05, 0x7f, 0xff}[rng.Intn(5)], b[:], ip.String(), "unknown-address-type"
			unknownType = true
		case k < 8:
			ip := pick()
			b := ip.As4()
			addrType, addr, reqTxt, typ = protocol.AddrTypeIPv4, b[:], ip.String(), "ipv4"
		case k < 11:
			ip := pick()
			b := ip.As16() // ::ffff:a.b.c.d
			addrType, addr, reqTxt, typ = protocol.AddrTypeIPv6, b[:], "::ffff:" + ip.String(), "ipv6-mapped"
		case k < 12 || (fam == 2 && k < 17):
			ip := netip.MustParseAddr([]string{"::1", "::", "fd00::1", "2001:db8::1", "fe80::1"}[rng.Intn(5)])
			b := ip.As16()
			addrType, addr, reqTxt, typ = protocol.AddrTypeIPv6, b[:], ip.String(), "ipv6"
		case k < 15: // domain-typed carrying an IP literal
			ip := pick()
			s := ip.String()
			if rng.Bool() {
				s = "::ffff:" + s
			}
			addrType, addr, reqTxt, typ = protocol.AddrTypeDomain, append([]byte{byte(len(s))}, s...), s, "domain-literal"
		default:
			names := make([]string, 0, len(c19aNames))
			for k := range c19aNames {
				names = append(names, k)
			}
			sort.Strings(names)
			s := names[rng.Intn(len(names))]
			switch rng.Intn(5) {
			case 0:
				s = strings.ToUpper(s)
			case 1:
				s += "."
			}
			addrType, addr, reqTxt, typ = protocol.AddrTypeDomain, append([]byte{byte(len(s))}, s...), s, "domain-name"
		}
		streamID++
		id := streamID
		open := &protocol.StreamOpen{RequestID: id + 5, AddressType: addrType, Address: addr, Port: uint16(sink.Port), EphemeralPubKey: eph}
		if rng.Chance(1, 5) {
			open.RemainingPath = []identity.AgentID{a.ID()} // "we are the target" spelling of the exit case
		}
		frame := &protocol.Frame{Type: protocol.FrameStreamOpen, StreamID: id, Payload: open.Encode()}

		// ---- what is present now, by the agent's own answer
		listed, listedTxt, ok := list()
		if !ok {
			return false
		}
		st := c19aStep{Op: "probe", Req: reqTxt, Type: typ, Listed: listedTxt}
		expectReply := a.exitHandler != nil && a.exitHandler.IsRunning()
		dialErrCode := false // the answer is one of the protocol's connection-level error codes
		a.handleStreamOpen(peer, frame)
		if unknownType {
			// the frame decoder may drop it (no reply) or the exit may answer: wait only if an answer shows up at once
			expectReply = false
			st.Reply = "unknown-type"
		}
		if expectReply {
			rp, ok := rec.waitReply(id)
			if !ok {
				r.Inconclusive("no reply to an open request within the watchdog")
				return false
			}
			if rp.Ack {
				st.Reply = "ack"
			} else {
				st.Reply = fmt.Sprintf("err %d", rp.ErrCode)
				switch rp.ErrCode {
				case protocol.ErrConnectionRefused, protocol.ErrConnectionTimeout, protocol.ErrHostUnreachable, protocol.ErrNetworkUnreachable:
					dialErrCode = true
				}
			}
		} else if !unknownType {
			st.Reply = "no-exit-handler"
		}
		accs, ok := sink.barrier()
		if !ok {
			r.Inconclusive("sink barrier failed (watchdog)")
			return false
		}
		if a.exitHandler != nil {
			a.exitHandler.HandleStreamClose(peer, id)
		}
		rec.forget(id)
		r.Add("probes", 1)
		nets := append(append([]netip.Prefix{}, static...), listed...)
		if len(nets) == 0 && len(patterns) == 0 {
			r.Add("nothing_configured_probes", 1)
		}
		if target != nil {
			r.Add("probes_into_removed_route", 1)
		}
		var lit netip.Addr
		if x, err := netip.ParseAddr(reqTxt); err == nil {
			lit = x.WithZone("").Unmap()
		}
		if len(accs) == 0 {
			// Decision-level side monitor (see the handler part): a pure IPv6 literal that no present
			// network covers, answered with a connection-level error code, was let through to the dial.
			if (typ == "ipv6" || typ == "domain-zoned-ipv6") && lit.IsValid() && lit.Is6() {
				r.Add("ipv6_literal_probes", 1)
				if !c19aInAny(lit, nets) {
					r.Add("ipv6_literal_not_permitted", 1)
					if dialErrCode {
						class := "outside-every-network"
						if len(nets) == 0 && len(patterns) == 0 {
							class = "nothing-present"
						} else if c19aOnlyFamily(nets, true) {
							class = "ipv4-only-configuration"
						}
						steps = append(steps, st)
						r.Violation("dial-attempted-not-permitted:ipv6-literal:"+class, "hist", ci,
							fmt.Sprintf("STREAM_OPEN for the IPv6 address %s, which lies in none of the configured networks %v nor of the dynamic routes %v, was answered with connection-level error %s: the exit went on to dial it", reqTxt, static, listedTxt, st.Reply),
							map[string]any{"exit_enabled": cfg.Exit.Enabled, "static": cfg.Exit.Routes, "patterns": patterns, "steps": steps})
						return true
					}
				}
			}
			if lit.IsValid() && c19aInAny(lit, nets) {
				r.Add("refused_although_literal_in_network", 1)
			} else {
				r.Add("refused_not_permitted", 1)
				nRef++
				if c19aOnlyFamily(nets, false) {
					r.Add("refused_ipv4_dest_by_ipv6_only_config", 1)
				}
			}
			steps = append(steps, st)
			return true
		}
		for _, ac := range accs {
			st.Conn = append(st.Conn, ac.Dest.String())
		}
		steps = append(steps, st)
		if len(accs) > 1 {
			r.Violation("multiple-connections-for-one-request", "hist", ci, fmt.Sprintf("%d connections for one STREAM_OPEN", len(accs)), steps)
		}
		for _, ac := range accs {
			permitted := c19aInAny(ac.Dest, nets) || (lit.IsValid() && c19aInAny(lit, nets))
			if !permitted && !lit.IsValid() && addrType == protocol.AddrTypeDomain {
				for _, p := range patterns {
					if kitPatternMatch(p, reqTxt) {
						permitted = true
					}
				}
			}
			if permitted {
				nConn++
				r.Add("connected_permitted", 1)
				if !c19aInAny(ac.Dest, static) && c19aInAny(ac.Dest, listed) {
					r.Add("connected_via_dynamic", 1)
				}
				continue
			}
			// structural class of the failure: the precondition the harness can compute itself
			class := "outside-every-network:" + typ
			switch {
			case strings.HasPrefix(typ, "domain-zoned-"):
				class = "zoned-literal-ending-in-allowed-wildcard-base:" + typ
			case c19aOnlyFamily(nets, false):
				class = "ipv6-only-configuration:" + typ
			case c19aInAny(ac.Dest, removedReadded):
				class = "removed-dynamic-route-that-had-been-re-added"
			case c19aInAny(ac.Dest, removedNow):
				class = "removed-dynamic-route"
			case len(nets) == 0 && len(patterns) == 0:
				class = "nothing-present:" + typ
			}
			r.Violation("connected-not-permitted:"+class, "hist", ci,
				fmt.Sprintf("STREAM_OPEN for %q (%s) made the exit connect to %s:%d; configured networks %v, dynamic routes per ManageRoute(list) %v, patterns %v, removed earlier %v",
					reqTxt, typ, ac.Dest, sink.Port, static, listedTxt, patterns, removedNow),
				map[string]any{"exit_enabled": cfg.Exit.Enabled, "static": cfg.Exit.Routes, "patterns": patterns, "steps": steps})
		}
		return true
	}

	// rebind: a host name whose DNS answer changes between queries (see the handler part): first
	// answer P in a present network, later answer U in none; only one of them listens on the port.
	rebindN := 0
	rebind := func() bool {
		if a.exitHandler == nil || !a.exitHandler.IsRunning() {
			return true
		}
		listed, listedTxt, ok := list()
		if !ok {
			return false
		}
		nets := append(append([]netip.Prefix{}, static...), listed...)
		usable := func(x netip.Addr) bool {
			if !x.Is4() {
				return false
			}
			b := x.As4()
			return b[0] == 127 && b[3] != 0 && b[3] != 255
		}
		var P, U netip.Addr
		for t := 0; t < 30 && !P.IsValid() && len(nets) > 0; t++ {
			if x := c19aEdge(nets[rng.Intn(len(nets))], rng); usable(x) && c19aInAny(x, nets) {
				P = x
			}
		}
		for t := 0; t < 30 && !U.IsValid(); t++ {
			if x := c19aV4(rng); usable(x) && !c19aInAny(x, nets) {
				U = x
			}
		}
		if !P.IsValid() || !U.IsValid() {
			return true
		}
		variant := []string{"hostile", "hostile", "hostile", "benign", "reversed"}[rng.Intn(5)]
		sched, bindAt := []netip.Addr{P, U}, U
		switch variant {
		case "benign":
			bindAt = P
		case "reversed":
			sched = []netip.Addr{U, P}
		}
		rebindN++
		name := kitRebindName(fmt.Sprintf("a%dx%d", ci, rebindN), sched...)
		for _, pat := range patterns {
			if kitPatternMatch(pat, name) {
				return true
			}
		}
		ls, err := newKitSinkAt(bindAt)
		if err != nil {
			r.Add("rebind_bind_failed", 1)
			return true
		}
		defer ls.Close()
		streamID++
		id := streamID
		open := &protocol.StreamOpen{RequestID: id + 5, AddressType: protocol.AddrTypeDomain, Address: append([]byte{byte(len(name))}, name...), Port: uint16(ls.Port), EphemeralPubKey: eph}
		st := c19aStep{Op: "probe", Req: name, Type: "domain-name-rebinding-" + variant, Listed: listedTxt}
		a.handleStreamOpen(peer, &protocol.Frame{Type: protocol.FrameStreamOpen, StreamID: id, Payload: open.Encode()})
		rp, ok := rec.waitReply(id)
		if !ok {
			r.Inconclusive("no reply to an open request within the watchdog")
			return false
		}
		st.Reply = fmt.Sprintf("err %d", rp.ErrCode)
		if rp.Ack {
			st.Reply = "ack"
		}
		accs, ok := ls.barrier()
		if !ok {
			r.Inconclusive("sink barrier failed (watchdog)")
			return false
		}
		a.exitHandler.HandleStreamClose(peer, id)
		rec.forget(id)
		r.Add("probes", 1)
		r.Add("rebind_probes_"+variant, 1)
		for _, ac := range accs {
			st.Conn = append(st.Conn, ac.Dest.String())
		}
		steps = append(steps, st)
		for _, ac := range accs {
			if c19aInAny(ac.Dest, nets) {
				nConn++
				r.Add("connected_permitted", 1)
				r.Add("rebind_connected_to_checked_address", 1)
				continue
			}
			r.Violation("connected-not-permitted:name-rebinding:later-dns-answer-outside-every-network", "hist", ci,
				fmt.Sprintf("STREAM_OPEN for host name %q (DNS answers in order: %v; only %s listens on port %d) made the exit connect to %s:%d; configured networks %v, dynamic routes %v; A queries answered for the name: %d",
					name, sched, bindAt, ls.Port, ac.Dest, ls.Port, static, listedTxt, dns.AQueries(name)),
				map[string]any{"exit_enabled": cfg.Exit.Enabled, "static": cfg.Exit.Routes, "patterns": patterns, "steps": steps})
		}
		if len(accs) == 0 {
			nRef++
			r.Add("refused_not_permitted", 1)
		}
		return true
	}

	manage := func(action string, p netip.Prefix, metric uint16) {
		spelled := c19aSpell(p, rng)
		res, err := a.ManageRoute(action, spelled, metric)
		st := c19aStep{Op: action, Net: spelled, Metric: int(metric)}
		key := p.String()
		if err != nil {
			st.Result = "error: " + err.Error()
			r.Add("manage_"+action+"_error", 1)
		} else {
			st.Result = res.Status
			nChange++
			switch action {
			case "add":
				if _, had := model[key]; had {
					r.Add("manage_add_existing", 1)
				} else {
					r.Add("manage_add_new", 1)
				}
				model[key] = p
				addCount[key]++
				everAdded = append(everAdded, p)
				drop := func(l []netip.Prefix) []netip.Prefix {
					for i, x := range l {
						if x == p {
							return append(l[:i], l[i+1:]...)
						}
					}
					return l
				}
				removedNow, removedReadded = drop(removedNow), drop(removedReadded)
			case "remove":
				r.Add("manage_remove_ok", 1)
				delete(model, key)
				removedNow = append(removedNow, p)
				if addCount[key] >= 2 {
					removedReadded = append(removedReadded, p)
					r.Add("manage_remove_after_readd", 1)
				}
				addCount[key] = 0
			}
		}
		steps = append(steps, st)
		wire()
		if err != nil && action == "remove" {
			// an error is an ordinary outcome: what counts is what list says afterwards
			if listed, _, ok := list(); ok {
				if _, had := model[key]; had && !c19aListed(listed, p) {
					delete(model, key)
					removedNow = append(removedNow, p)
					addCount[key] = 0
					r.Add("manage_remove_error_but_unlisted", 1)
				}
			}
		}
	}

	// peerFrames: route-table frames from a peer between two management calls. ROUTE_WITHDRAW /
	// ROUTE_ADVERTISE naming this agent itself (or somebody else) as origin for a present network
	// go through the agent's real frame dispatch. Nothing is judged here; the history goes on and the
	// probes keep comparing connections with (configured + what list reports).
	peerSeq := uint64(1 << 40)
	peerFrames := func(p netip.Prefix, self bool, withdraw bool) {
		if !p.Addr().Is4() {
			return
		}
		origin := a.ID()
		if !self {
			rng.Fill(origin[:])
		}
		peerSeq++
		b := p.Addr().As4()
		rt := protocol.Route{AddressFamily: protocol.AddrFamilyIPv4, PrefixLength: uint8(p.Bits()), Prefix: b[:], Metric: uint16(1 + rng.Intn(3))}
		var fr *protocol.Frame
		kind := "peer-withdraw"
		if withdraw {
			w := &protocol.RouteWithdraw{OriginAgent: origin, Sequence: peerSeq, Routes: []protocol.Route{rt}}
			fr = &protocol.Frame{Type: protocol.FrameRouteWithdraw, Payload: w.Encode()}
		} else {
			kind = "peer-advertise"
			ad := &protocol.RouteAdvertise{OriginAgent: origin, Sequence: peerSeq, Routes: []protocol.Route{rt}, Path: []identity.AgentID{origin}, SeenBy: []identity.AgentID{origin}}
			fr = &protocol.Frame{Type: protocol.FrameRouteAdvertise, Payload: ad.Encode()}
		}
		if self {
			kind += "-naming-self"
		}
		a.processFrame(peer, fr)
		steps = append(steps, c19aStep{Op: kind, Net: p.String()})
		r.Add("peer_route_frames", 1)
	}

	nsteps := rng.Range(16, 34)
	for k := 0; k < nsteps; k++ {
		keys := make([]string, 0, len(model))
		for kk := range model {
			keys = append(keys, kk)
		}
		sort.Strings(keys)
		if rng.Chance(1, 7) {
			if !rebind() {
				return
			}
			continue
		}
		if rng.Chance(1, 8) { // a peer's route frames between two management calls
			var p netip.Prefix
			switch {
			case len(keys) > 0 && rng.Chance(3, 4):
				p = model[keys[rng.Intn(len(keys))]]
			case len(static) > 0:
				p = static[rng.Intn(len(static))]
			default:
				p = c19aNet(rng)
			}
			self := rng.Chance(2, 3)
			peerFrames(p, self, rng.Chance(3, 4))
			if _, dyn := model[p.String()]; dyn && rng.Bool() {
				// the operator removes that dynamic route right afterwards; then probes aimed at it
				manage("remove", p, 0)
				for j := 0; j < 3; j++ {
					if !probe(&p) {
						return
					}
				}
			}
			continue
		}
		switch c := rng.Intn(20); {
		case c < 2: // add new
			manage("add", c19aAnyNet(rng, fam), uint16(rng.Intn(5)))
		case c < 5 && len(keys) > 0: // add again (metric update), possibly in another spelling
			manage("add", model[keys[rng.Intn(len(keys))]], uint16(rng.Intn(50)))
		case c < 7 && len(keys) > 0: // remove a dynamic route, then aim probes at it
			p := model[keys[rng.Intn(len(keys))]]
			manage("remove", p, 0)
			for j := 0; j < 3; j++ {
				if !probe(&p) {
					return
				}
			}
		case c == 7: // remove something absent or static
			if len(static) > 0 && rng.Bool() {
				manage("remove", static[rng.Intn(len(static))], 0)
			} else {
				manage("remove", c19aAnyNet(rng, fam), 0)
			}
		case c == 8 && len(static) > 0: // add a static network dynamically (must not change anything)
			manage("add", static[rng.Intn(len(static))], uint16(rng.Intn(5)))
		default:
			if !probe(nil) {
				return
			}
		}
	}
	var sb strings.Builder
	for _, s := range steps {
		fmt.Fprintf(&sb, "%s:%s:%d:%s:%s>%s;", s.Op, s.Net, s.Metric, s.Type, s.Req, s.Reply)
	}
	nontriv := nConn > 0 && nRef > 0 && nChange > 0
	r.Eval(fmt.Sprintf("%v|%v|%v|%s", cfg.Exit.Enabled, cfg.Exit.Routes, patterns, sb.String()), nontriv)
	if nontriv && r.NeedSample() {
		r.Sample(map[string]any{"exit_enabled": cfg.Exit.Enabled, "static": cfg.Exit.Routes, "patterns": patterns, "steps": steps})
	}
}

var _ = net.IPv4len

// ---------------------------------------------------------------------------- concurrent adds

// c19aConcurrent: several API clients add the SAME network at the same moment (only adds overlap),
// with 0..64 other routes already present; after all adds returned the network is removed once.
// ManageRoute("list") then no longer shows it, so nothing inside it may be connected any more.
// The handler's AllowedRouteCount() is compared with (configured + listed) as a cheap indicator
// that decides where to probe more; the verdict is the accept on the loopback listener.
func c19aConcurrent(r *verifkit.R, sink *kitSink, dns *kitDNS, root string) {
	nAgents := r.N(8, 80)
	r.Cases("conc", nAgents, func(ci int, rng *verifkit.Rand) {
		dir, err := os.MkdirTemp(root, "c")
		if err != nil {
			r.Inconclusive("tempdir: " + err.Error())
			return
		}
		cfg := config.Default()
		cfg.Agent.DataDir = dir
		cfg.Agent.LogLevel = "error"
		cfg.Connections.IdleThreshold = 30 * time.Second
		cfg.Exit.Enabled = true
		cfg.Exit.DNS.Servers = []string{dns.Addr}
		cfg.Exit.DNS.Timeout = 5 * time.Second
		fillers := []int{0, 4, 16, 32, 64, 64}[rng.Intn(6)]
		for i := 0; i < fillers; i++ { // never probed: documentation / private space, not loopback
			cfg.Exit.Routes = append(cfg.Exit.Routes, fmt.Sprintf("10.%d.%d.0/24", rng.Intn(256), i))
		}
		a, err := New(cfg)
		if err != nil {
			r.Inconclusive("agent.New: " + err.Error())
			return
		}
		if err := a.Start(); err != nil {
			r.Inconclusive("agent.Start: " + err.Error())
			return
		}
		defer func() {
			ctx, cancel := context.WithTimeout(context.Background(), kitWatchdog)
			defer cancel()
			if err := a.StopWithContext(ctx); err != nil {
				r.Inconclusive("agent did not stop within the watchdog")
			}
		}()
		if a.exitHandler == nil {
			r.Inconclusive("no exit handler on an exit-enabled agent")
			return
		}
		rec := newKitWriter()
		a.exitHandler.SetWriter(rec)
		if _, ok := sink.barrier(); !ok {
			r.Inconclusive("sink barrier failed (watchdog)")
			return
		}
		_, eph, err := crypto.GenerateEphemeralKeypair()
		if err != nil {
			r.Inconclusive("keygen: " + err.Error())
			return
		}
		var peer identity.AgentID
		rng.Fill(peer[:])
		nStatic := a.exitHandler.AllowedRouteCount()
		streamID := uint64(900000)
		rounds := 150
		type round struct {
			Net        string `json:"net"`
			Adders     int    `json:"concurrent_adds"`
			AddsOK     int    `json:"adds_ok"`
			Removed    bool   `json:"removed"`
			Listed     int    `json:"listed_after_remove"`
			AllowCount int    `json:"allow_list_size"`
			Probed     string `json:"probe,omitempty"`
			Connected  string `json:"connected,omitempty"`
		}
		var hist []round
		bad, judged := false, 0
		for k := 0; k < rounds; k++ {
			p := netip.PrefixFrom(netip.AddrFrom4([4]byte{127, byte(1 + rng.Intn(250)), byte(rng.Intn(256)), 0}), 24)
			g := 2 + rng.Intn(7)
			spell := make([]string, g)
			for i := range spell {
				spell[i] = c19aSpell(p, rng)
			}
			start := make(chan struct{})
			var wg sync.WaitGroup
			var okAdds atomic.Int64
			for i := 0; i < g; i++ {
				wg.Add(1)
				go func(i int) {
					defer wg.Done()
					<-start
					if _, err := a.ManageRoute("add", spell[i], uint16(i)); err == nil {
						okAdds.Add(1)
					}
				}(i)
			}
			close(start)
			wg.Wait()
			r.Add("conc_add_calls", g)
			rd := round{Net: p.String(), Adders: g, AddsOK: int(okAdds.Load())}
			_, rerr := a.ManageRoute("remove", p.String(), 0)
			rd.Removed = rerr == nil
			res, lerr := a.ManageRoute("list", "", 0)
			if lerr != nil || res == nil {
				r.Inconclusive("ManageRoute(list) failed")
				return
			}
			stillListed := false
			for _, e := range res.Routes {
				if q, ok := kitParseNet(e.Network); ok && q == p {
					stillListed = true
				}
			}
			rd.Listed = len(res.Routes)
			rd.AllowCount = a.exitHandler.AllowedRouteCount()
			r.Add("conc_rounds", 1)
			if stillListed {
				hist = append(hist, rd)
				continue // still a present route by the agent's own answer: nothing to judge
			}
			differs := rd.AllowCount != nStatic+len(res.Routes)
			if differs {
				r.Add("conc_allow_list_size_differs_from_route_set", 1)
			}
			if differs || rng.Chance(1, 4) {
				b := p.Addr().As4()
				b[3] = byte(1 + rng.Intn(254))
				dest := netip.AddrFrom4(b)
				streamID++
				id := streamID
				open := &protocol.StreamOpen{RequestID: id + 5, AddressType: protocol.AddrTypeIPv4, Address: b[:], Port: uint16(sink.Port), EphemeralPubKey: eph}
				a.handleStreamOpen(peer, &protocol.Frame{Type: protocol.FrameStreamOpen, StreamID: id, Payload: open.Encode()})
				rp, ok := rec.waitReply(id)
				if !ok {
					r.Inconclusive("no reply to an open request within the watchdog")
					return
				}
				accs, ok := sink.barrier()
				if !ok {
					r.Inconclusive("sink barrier failed (watchdog)")
					return
				}
				a.exitHandler.HandleStreamClose(peer, id)
				rec.forget(id)
				judged++
				r.Add("probes", 1)
				r.Add("conc_probes_into_removed_route", 1)
				rd.Probed = dest.String()
				if rp.Ack {
					rd.Probed += " ack"
				}
				for _, ac := range accs {
					rd.Connected = ac.Dest.String()
				}
				hist = append(hist, rd)
				if len(accs) > 0 {
					bad = true
					tail := hist
					if len(tail) > 6 {
						tail = tail[len(tail)-6:]
					}
					r.Violation("connected-not-permitted:removed-dynamic-route-after-concurrent-adds", "conc", ci,
						fmt.Sprintf("%d ManageRoute(add) calls for %s overlapped, then one remove succeeded (%v); ManageRoute(list) no longer shows the network (%d routes listed, %d configured) but the exit connected to %s:%d (allow list holds %d entries)",
							g, p, rd.Removed, len(res.Routes), nStatic, accs[0].Dest, sink.Port, rd.AllowCount),
						map[string]any{"filler_routes": fillers, "last_rounds": tail})
				} else {
					r.Add("refused_not_permitted", 1)
				}
				continue
			}
			hist = append(hist, rd)
		}
		r.Eval(fmt.Sprintf("conc|%d|%d|%v", fillers, judged, bad), judged > 0 && !bad)
		if ci == 0 && len(hist) > 3 {
			r.Sample(map[string]any{"phase": "conc", "filler_routes": fillers, "first_rounds": hist[:3]})
		}
	})
	r.Require("conc_rounds", 500)
	r.Require("conc_probes_into_removed_route", 100)
}
