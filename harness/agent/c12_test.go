package agent

// C12 (agent level) — in meshes of real agents over loopback QUIC in which every node is an
// exit for its own loopback /32, after route convergence: the route each agent holds for each
// other agent's prefix has a next hop that is a connected peer and a path that is a chain of
// configured links ending at the advertising agent, and a stream actually opened through
// agent.DialContext along it reaches an exit that accepts the destination (only the
// advertising agent's exit handler allows that /32) and echoes a canary.

import (
	"fmt"
	"net"
	"strings"
	"testing"
	"time"

	"github.com/postalsys/muti-metroo/internal/verifkit"
)

func c12AgentsTopo(r *verifkit.R, ci int, t fmTopo, echo *fmEcho) {
	m := fmBuild(r, t)
	if m == nil {
		return
	}
	defer func() {
		if hung := m.stop(); len(hung) > 0 {
			r.Add("agents_hung_on_stop", len(hung))
		}
	}()
	linked := func(a, b int) bool {
		for _, e := range t.Edges {
			if (e[0] == a && e[1] == b) || (e[0] == b && e[1] == a) {
				return true
			}
		}
		return false
	}
	type row struct {
		From, To int
		Path     []int
		Outcome  string
	}
	var rows []row
	vio, multihop := 0, 0
	bad := func(key, detail string) {
		vio++
		r.Violation("agents:"+key, "agents", ci, t.Name+": "+detail, rows)
	}
	for x := 0; x < t.N; x++ {
		for y := 0; y < t.N; y++ {
			if x == y {
				continue
			}
			rt := m.nodes[x].a.routeMgr.Lookup(net.ParseIP(fmExitIP(y)))
			if rt == nil {
				r.Inconclusive(fmt.Sprintf("%s: route %d->%d vanished after convergence", t.Name, x, y))
				continue
			}
			var path []int
			for _, id := range rt.Path {
				if n, ok := m.byID[id]; ok {
					path = append(path, n.idx)
				} else {
					path = append(path, -1)
				}
			}
			rw := row{From: x, To: y, Path: path}
			r.Add("routes_checked", 1)
			switch {
			case len(path) == 0:
				bad("empty-path", fmt.Sprintf("agent %d holds a route to agent %d's prefix with an empty path", x, y))
			case m.byID[rt.NextHop] == nil || !linked(x, m.byID[rt.NextHop].idx):
				bad("next-hop-not-a-neighbour", fmt.Sprintf("agent %d -> %d: next hop is not a configured neighbour (path %v)", x, y, path))
			case path[0] != m.byID[rt.NextHop].idx:
				bad("path-does-not-start-at-next-hop", fmt.Sprintf("agent %d -> %d: path %v", x, y, path))
			case path[len(path)-1] != y:
				bad("path-does-not-end-at-origin", fmt.Sprintf("agent %d -> %d: path %v", x, y, path))
			default:
				prev, ok := x, true
				for _, h := range path {
					if h < 0 || !linked(prev, h) {
						ok = false
					}
					prev = h
				}
				if !ok {
					bad("path-hop-not-a-link", fmt.Sprintf("agent %d -> %d: path %v", x, y, path))
				}
			}
			if len(path) >= 2 {
				multihop++
			}
			if !fmSettle(m, 15*time.Second) {
				r.Add("pairs_skipped_previous_tunnel_still_live", 1)
				continue
			}
			meshed, out := fmDialEcho(m, x, fmExitIP(y), echo.port, fmt.Sprintf("canary-%s-%d-%d", t.Name, x, y))
			rw.Outcome = out
			rows = append(rows, rw)
			lo := strings.ToLower(out)
			switch {
			case strings.HasPrefix(out, "watchdog") || strings.Contains(lo, "timeout") || strings.Contains(lo, "timed out") || strings.Contains(lo, "deadline"):
				// an elapsed timer (ours or the agent's 30 s open timeout) is never a verdict
				r.Inconclusive(fmt.Sprintf("%s %d->%d: %s", t.Name, x, y, out))
			case !meshed && out == "":
				r.Inconclusive(fmt.Sprintf("%s %d->%d: dial fell back to a direct connection", t.Name, x, y))
			case out != "":
				bad("stream-does-not-reach-advertiser", fmt.Sprintf("agent %d dialled agent %d's prefix along path %v: %s", x, y, path, out))
			default:
				r.Add("streams_echoed_through_mesh", 1)
			}
		}
	}
	r.Eval(t.Name, multihop > 0)
	if r.NeedSample() {
		r.Sample(map[string]any{"topology": t.Name, "edges": t.Edges, "pairs": rows})
	}
}

func TestVerif_C12Agents(t *testing.T) {
	r := verifkit.Start(t, "C12", "agents")
	r.Rule("one case = one mesh of real agents (loopback QUIC), every node an exit for its own /32; after convergence, for every ordered pair the held route is checked against the configured links and a stream is opened along it through agent.DialContext to an echo listener; " +
		"non-trivial = the mesh has multi-hop routes; distinct by topology")
	echo, err := fmStartEcho()
	if err != nil {
		r.Inconclusive("echo listener: " + err.Error())
		return
	}
	defer echo.ln.Close()
	topos := fmTopos[:2]
	if !r.Quick() {
		topos = fmTopos
	}
	for ci, tp := range topos {
		if !r.Wanted("agents", ci) {
			continue
		}
		r.Mark("agents", ci)
		c12AgentsTopo(r, ci, tp, echo)
	}
	r.Require("streams_echoed_through_mesh", 20)
}
