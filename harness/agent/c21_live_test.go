package agent_test

// C21 (agent level, live) — a real agent (agent.New + Start, exported API only) with its
// SOCKS5 listener and plaintext WebSocket SOCKS5 listener on loopback. CONNECT requests name a
// harness TCP sink; the standalone agent dials it directly, so "a CONNECT was executed" is
// observed as a connection arriving at the sink. UDP ASSOCIATE / ICMP are observed through
// their success reply.

import (
	"context"
	"fmt"
	"net"
	"sync/atomic"
	"testing"
	"time"

	"github.com/postalsys/muti-metroo/internal/agent"
	"github.com/postalsys/muti-metroo/internal/c21kit"
	"github.com/postalsys/muti-metroo/internal/config"
	"github.com/postalsys/muti-metroo/internal/sleep"
	"github.com/postalsys/muti-metroo/internal/verifkit"
)

func c21FreePort() (string, error) {
	l, err := net.Listen("tcp", "127.0.0.1:0")
	if err != nil {
		return "", err
	}
	defer l.Close()
	return l.Addr().String(), nil
}

func TestVerif_C21Live(t *testing.T) {
	r := verifkit.Start(t, "C21", "agent-live")
	r.Rule("hostile client transcripts (adaptive and blind, TCP and WebSocket) against the SOCKS5 listeners of a real running agent built from generated configurations; " +
		"non-trivial = the server answered the greeting (or refused the WebSocket upgrade with 401); distinct by (configuration, transport, mode, method offer, credentials, command, cut)")
	r.Assume("a standalone agent without a mesh route dials CONNECT destinations directly, so a connection arriving at the harness sink is the agent executing a CONNECT")
	dest, flush, stopSink, err := c21kit.NewSink()
	if err != nil {
		r.Inconclusive("sink: " + err.Error())
		return
	}
	defer stopSink()
	var aborted atomic.Bool
	// startAgent builds and starts a real agent for one auth section and returns its SOCKS5
	// endpoints as a target whose executed CONNECTs are the connections arriving at the sink.
	var lastAgent *agent.Agent // the agent most recently started by startAgent
	var tweak func(*config.Config)
	startAgent := func(i int, phase string, auth config.SOCKS5AuthConfig, withExit bool) (*c21kit.Target, func(), bool) {
		var a *agent.Agent
		var wsAddr string
		for attempt := 0; ; attempt++ {
			ws, err := c21FreePort()
			if err != nil {
				r.Inconclusive("no free port: " + err.Error())
				aborted.Store(true)
				return nil, nil, false
			}
			cfg := config.Default()
			cfg.Agent.DataDir = t.TempDir()
			cfg.Agent.LogLevel = "error"
			cfg.SOCKS5.Enabled = true
			cfg.SOCKS5.Address = "127.0.0.1:0"
			cfg.SOCKS5.Auth = auth
			cfg.SOCKS5.WebSocket = config.WebSocketSOCKS5Config{Enabled: true, Address: ws, Path: "/socks5", PlainText: true}
			if withExit {
				// a local exit route makes UDP ASSOCIATE succeed on a standalone agent
				cfg.Exit.Enabled = true
				cfg.Exit.Routes = []string{"0.0.0.0/0"}
			}
			if tweak != nil {
				tweak(cfg)
			}
			ag, err := agent.New(cfg)
			if err == nil {
				err = ag.Start()
			}
			if err == nil {
				a, wsAddr = ag, ws
				break
			}
			if ag != nil {
				ag.Stop()
			}
			if attempt >= 3 {
				r.Inconclusive("agent did not start: " + err.Error())
				aborted.Store(true)
				return nil, nil, false
			}
		}
		stop := func() {
			ctx, cancel := context.WithTimeout(context.Background(), 20*time.Second)
			defer cancel()
			if err := a.StopWithContext(ctx); err != nil {
				r.Add("agent_stop_timeouts", 1)
			}
		}
		lastAgent = a
		r.Add("agents_started", 1)
		if withExit {
			r.Add("agents_with_local_exit", 1)
		}
		tgt := &c21kit.Target{
			TCPAddr:     a.SOCKS5Address().String(),
			WSAddr:      wsAddr,
			WSPath:      "/socks5",
			ConnectDest: dest,
			Events: func() c21kit.Events {
				peers, err := flush()
				if err != nil {
					r.Inconclusive(fmt.Sprintf("%s:%d sink: %v", phase, i, err))
					aborted.Store(true)
				}
				return c21kit.Events{Dials: peers}
			},
		}
		return tgt, stop, true
	}
	nCfg := r.N(20, 300)
	perCfg := r.N(40, 60)
	r.Cases("agent", nCfg, func(i int, rng *verifkit.Rand) {
		if aborted.Load() {
			return
		}
		auth, setup := c21kit.GenAgentAuth(rng, i)
		tgt, stop, ok := startAgent(i, "agent", auth, rng.Bool())
		if !ok {
			return
		}
		defer stop()
		x := &c21kit.Runner{R: r, Phase: "agent", Case: i, S: setup, T: tgt, Aborted: &aborted}
		x.Workload(rng, perCfg)
	})
	// phase 2: identical credential pairs presented concurrently to a running agent whose users
	// have bcrypt hashes
	r.Cases("conc", r.N(2, 20), func(i int, rng *verifkit.Rand) {
		if aborted.Load() {
			return
		}
		users, hashes := c21kit.GenHashedUsers(rng, i)
		auth := config.SOCKS5AuthConfig{Enabled: true}
		for _, u := range users {
			auth.Users = append(auth.Users, config.SOCKS5UserConfig{Username: u.Name, PasswordHash: hashes[u.Name]})
		}
		setup := c21kit.Setup{Class: "usable-user", Enforced: true, Users: users, SlowUnknown: true, Desc: auth}
		tgt, stop, ok := startAgent(i, "conc", auth, false)
		if !ok {
			return
		}
		defer stop()
		x := &c21kit.Runner{R: r, Phase: "conc", Case: i, S: setup, T: tgt, Aborted: &aborted}
		x.ConcurrentRounds(rng, r.N(8, 30))
	})
	// phase 3: agent lifecycle. With sleep mode enabled the client matrix is run before and after
	// k = 1..3 sleep -> wake cycles of the running agent (the SOCKS5 listener is stopped on sleep
	// and brought up again on wake; its address is re-read). Oracle unchanged.
	tweak = func(cfg *config.Config) {
		cfg.Sleep.Enabled = true
		cfg.Sleep.PollInterval = time.Hour // nothing else happens while asleep
		cfg.Sleep.PollDuration = time.Second
		cfg.Sleep.PersistState = false
	}
	r.Cases("lifecycle", r.N(8, 80), func(i int, rng *verifkit.Rand) {
		if aborted.Load() {
			return
		}
		// enforced configurations only (i%10 == 9 is the open control group)
		ci := i
		if ci%10 == 9 {
			ci++
		}
		auth, setup := c21kit.GenAgentAuth(rng, ci)
		tgt, stop, ok := startAgent(i, "lifecycle", auth, rng.Bool())
		if !ok {
			return
		}
		defer stop()
		a := lastAgent
		x := &c21kit.Runner{R: r, Phase: "lifecycle", Case: i, S: setup, T: tgt, Aborted: &aborted}
		x.Workload(rng, 10)
		cycles := rng.Range(1, 3)
		for c := 0; c < cycles && !aborted.Load(); c++ {
			if err := a.TriggerSleep(); err != nil {
				r.Inconclusive(fmt.Sprintf("lifecycle:%d TriggerSleep: %v", i, err))
				return
			}
			if a.GetSleepState() == sleep.StateAwake {
				r.Inconclusive(fmt.Sprintf("lifecycle:%d agent did not fall asleep", i))
				return
			}
			r.Add("sleeps", 1)
			// TriggerWake wakes locally first and then keeps flooding the wake command for
			// 2*poll_interval; only the local wake matters here
			go a.TriggerWake()
			deadline := time.Now().Add(c21kit.Watchdog)
			up := false
			for time.Now().Before(deadline) {
				if a.GetSleepState() == sleep.StateAwake {
					if addr := a.SOCKS5Address(); addr != nil {
						if c, err := net.DialTimeout("tcp", addr.String(), time.Second); err == nil {
							c.Close()
							up = true
							break
						}
					}
				}
				time.Sleep(5 * time.Millisecond)
			}
			if !up {
				r.Inconclusive(fmt.Sprintf("lifecycle:%d SOCKS5 listener did not come back after wake within %v", i, c21kit.Watchdog))
				return
			}
			r.Add("wakes", 1)
			// the WebSocket listener is not restarted on wake: TCP only from here on
			after := *tgt
			after.TCPAddr = a.SOCKS5Address().String()
			after.WSAddr = ""
			after.Events() // the readiness probe connection executed nothing; reset
			xa := &c21kit.Runner{R: r, Phase: "lifecycle", Case: i, S: setup, T: &after, Aborted: &aborted, Stage: "after-wake"}
			before := r.Counter("transcripts")
			xa.Workload(rng, 16)
			r.Add("transcripts_after_wake", int(r.Counter("transcripts")-before))
		}
	})
	tweak = nil
	r.Require("wakes", 8)
	r.Require("transcripts_after_wake", 100)
	r.Require("concurrent_rounds", 10)
	r.Require("concurrent_rounds_overlapped", 6)
	r.Require("agents_started", 10)
	r.Require("transcripts", 500)
	r.Require("transcripts_ws", 100)
	r.Require("class_no-usable-user", 100)
	r.Require("class_usable-user", 100)
	r.Require("refused_unauthenticated", 200)
	r.Require("executed_authenticated", 20)
	r.Require("executed_open_server", 10)
}
