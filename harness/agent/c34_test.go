package agent_test

// C34 — persistent agent state survives a crash at any point.
//
// Level: fault enumeration. A child process (this very test binary, re-executed with
// C34_MODE set, hence always built from the working tree) runs the real agent:
// agent.New (identity + keypair creation in a fresh data dir), agent.Start, and a plan of
// sleep-state saves (TriggerSleep, timer driven polls, TriggerWake). It runs under
// `strace -f -y -xx`, which records every filesystem-mutating syscall that reaches the kernel.
// The child marks the quiescent points between plan steps with a recognisable no-op syscall
// (faccessat on /C34MARK/<n>), so the harness needs no knowledge of file names or formats.
//
// The harness replays the recorded syscalls into a model of the data directory and, for EVERY
// prefix of the mutating syscalls (and for every write also torn after 1, half, len-1 and one
// PRNG-chosen number of bytes), materialises the directory that a process death at that point
// leaves behind and runs the child in "next start" mode (agent.New + agent.Start with the same
// configuration) on it. Oracle, from the property statement:
//   - the next start succeeds;
//   - the public key the agent advertises is the one derived from the private key on disk;
//   - an identity that was already stored (loadable through identity.Load / LoadKeypair from
//     the crashed directory) is the identity the next start uses, and after a completed
//     creation it is the identity the creating run reported; a further restart keeps it;
//   - the sleep state the next start ends up with equals the in-process state the recording
//     child observed before or after the interrupted plan step.
// Soundness of the model is checked, not assumed: the model's final directory must equal the
// real directory byte for byte, and (thorough) real SIGKILLs injected by strace must leave a
// directory whose shape the enumeration contains.

import (
	"bytes"
	"context"
	"crypto/sha256"
	"encoding/hex"
	"encoding/json"
	"errors"
	"fmt"
	"io/fs"
	"os"
	"os/exec"
	"path/filepath"
	"regexp"
	"sort"
	"strconv"
	"strings"
	"sync"
	"syscall"
	"testing"
	"time"

	"github.com/postalsys/muti-metroo/internal/agent"
	"github.com/postalsys/muti-metroo/internal/config"
	"github.com/postalsys/muti-metroo/internal/identity"
	"github.com/postalsys/muti-metroo/internal/verifkit"
)

const c34MarkDir = "/C34MARK/"

// ------------------------------------------------------------------ child side

type c34Sleep struct {
	State      string `json:"state"`
	SleepStart int64  `json:"sleep_start_ns"`
	LastPoll   int64  `json:"last_poll_ns"`
}

func (s c34Sleep) String() string {
	return fmt.Sprintf("%s/start=%d/poll=%d", s.State, s.SleepStart, s.LastPoll)
}

type c34ChildOut struct {
	Mode    string     `json:"mode"`
	OK      bool       `json:"ok"`
	Stage   string     `json:"stage,omitempty"`
	Err     string     `json:"err,omitempty"`
	ID      string     `json:"id,omitempty"`
	Pub     string     `json:"pub,omitempty"`      // public key the running agent advertises
	DiskPub string     `json:"disk_pub,omitempty"` // derived from the private key stored on disk
	DiskErr string     `json:"disk_err,omitempty"`
	Sleep   c34Sleep   `json:"sleep"`
	Snaps   []c34Sleep `json:"snaps,omitempty"` // record mode: sleep state after each plan step
	Flags   []string   `json:"flags,omitempty"` // record mode: "stall", "extra-poll", "watchdog:<op>"
}

func c34Nanos(t time.Time) int64 {
	if t.IsZero() {
		return 0
	}
	return t.UnixNano()
}

func c34SleepOf(a *agent.Agent) c34Sleep {
	st := a.GetSleepStatus()
	return c34Sleep{State: st.State, SleepStart: c34Nanos(st.SleepStartTime), LastPoll: c34Nanos(st.LastPollTime)}
}

func c34Config(dataDir, explicitID string, pollMS int) *config.Config {
	cfg := config.Default()
	cfg.Agent.DataDir = dataDir
	cfg.Agent.LogLevel = "error"
	if explicitID != "" {
		cfg.Agent.ID = explicitID
	}
	cfg.Sleep.Enabled = true
	cfg.Sleep.PersistState = true
	cfg.Sleep.AutoSleepOnStart = false
	cfg.Sleep.PollInterval = time.Duration(pollMS) * time.Millisecond
	cfg.Sleep.PollIntervalJitter = 0
	cfg.Sleep.PollDuration = 50 * time.Millisecond
	return cfg
}

func c34Mark(name string) { _ = syscall.Access(c34MarkDir+name, 0) }

// TestVerif_C34_Child is the body of the re-executed child; a no-op in a normal test run.
func TestVerif_C34_Child(t *testing.T) {
	mode := os.Getenv("C34_MODE")
	if mode == "" {
		t.Skip("child entry point only")
	}
	out := c34ChildOut{Mode: mode}
	code := c34ChildRun(mode, &out)
	b, _ := json.Marshal(out)
	if err := os.WriteFile(os.Getenv("C34_OUT"), b, 0o644); err != nil {
		fmt.Fprintln(os.Stderr, "c34 child: cannot write result:", err)
		os.Exit(9)
	}
	// no agent.Stop(): the point is what a start leaves us with; exit like a killed process.
	os.Exit(code)
}

func c34ChildRun(mode string, out *c34ChildOut) int {
	dataDir := os.Getenv("C34_DIR")
	pollMS, _ := strconv.Atoi(os.Getenv("C34_POLL_MS"))
	if pollMS <= 0 {
		pollMS = 2000
	}
	cfg := c34Config(dataDir, os.Getenv("C34_ID"), pollMS)
	var a *agent.Agent
	fill := func() {
		out.ID = a.ID().String()
		if ni := a.GetLocalNodeInfo(); ni != nil {
			out.Pub = hex.EncodeToString(ni.PublicKey[:])
		}
		if kp, err := identity.LoadKeypair(dataDir); err != nil {
			out.DiskErr = err.Error()
		} else {
			d := identity.DerivePublicKey(kp.PrivateKey)
			out.DiskPub = hex.EncodeToString(d[:])
		}
	}
	if mode == "start" {
		var err error
		if a, err = agent.New(cfg); err != nil {
			out.Stage, out.Err = "new", err.Error()
			return 3
		}
		if err = a.Start(); err != nil {
			out.Stage, out.Err = "start", err.Error()
			return 4
		}
		fill()
		out.Sleep = c34SleepOf(a)
		out.OK = true
		return 0
	}
	// record mode
	plan := strings.Split(os.Getenv("C34_PLAN"), ",")
	cur := c34Sleep{State: "AWAKE"}
	interval := time.Duration(pollMS) * time.Millisecond
	for k, op := range plan {
		switch op {
		case "new":
			na, err := agent.New(cfg)
			if err != nil {
				out.Stage, out.Err = "new", err.Error()
				return 3
			}
			a = na
			fill()
		case "start":
			if err := a.Start(); err != nil {
				out.Stage, out.Err = "start", err.Error()
				return 4
			}
			cur = c34SleepOf(a)
		case "sleep":
			if err := a.TriggerSleep(); err != nil {
				out.Stage, out.Err = "sleep", err.Error()
				return 5
			}
			cur = c34SleepOf(a)
		case "wake":
			if err := a.TriggerWake(); err != nil {
				out.Stage, out.Err = "wake", err.Error()
				return 5
			}
			now := c34SleepOf(a)
			if now.LastPoll != cur.LastPoll {
				out.Flags = append(out.Flags, "extra-poll")
			}
			cur = now
		case "poll":
			// wait for the next timer-driven poll cycle to complete (one save)
			deadline := time.Now().Add(60 * time.Second)
			last := time.Now()
			for {
				now := c34SleepOf(a)
				if now.LastPoll != cur.LastPoll && now.State == "SLEEPING" {
					cur = now
					break
				}
				t := time.Now()
				if t.Sub(last) > interval/2 {
					out.Flags = append(out.Flags, "stall")
				}
				last = t
				if t.After(deadline) {
					out.Flags = append(out.Flags, "watchdog:poll")
					out.Stage, out.Err = "poll", "no poll cycle completed"
					return 6
				}
				time.Sleep(2 * time.Millisecond)
			}
		default:
			out.Stage, out.Err = "plan", "unknown op "+op
			return 7
		}
		out.Snaps = append(out.Snaps, cur)
		c34Mark(fmt.Sprintf("%d:%s", k+1, op))
	}
	out.Sleep = cur
	out.OK = true
	return 0
}

// ------------------------------------------------------------------ strace parsing

type c34Op struct {
	Line   int    `json:"line"`
	Call   string `json:"call"`
	Kind   string `json:"kind"` // mkdir open write rename unlink rmdir chmod truncate sync close marker
	Path   string `json:"path,omitempty"`
	Path2  string `json:"path2,omitempty"`
	FD     int    `json:"fd,omitempty"`
	Flags  string `json:"flags,omitempty"`
	Mode   uint32 `json:"mode,omitempty"`
	Data   []byte `json:"-"`
	Len    int    `json:"len,omitempty"`
	Off    int64  `json:"off,omitempty"`
	Ret    int64  `json:"ret"`
	Failed bool   `json:"failed,omitempty"`
	Marker int    `json:"marker,omitempty"`
}

func (o c34Op) Short(root string) string {
	rel := func(p string) string { return strings.TrimPrefix(p, root) }
	s := o.Call + "("
	switch o.Kind {
	case "marker":
		return fmt.Sprintf("MARK %d", o.Marker)
	case "open":
		s += rel(o.Path) + ", " + o.Flags + fmt.Sprintf(", 0%o", o.Mode)
	case "write":
		s += fmt.Sprintf("fd%d<%s>, %d bytes", o.FD, rel(o.Path), o.Len)
	case "rename":
		s += rel(o.Path) + " -> " + rel(o.Path2)
	case "close", "sync":
		s += fmt.Sprintf("fd%d<%s>", o.FD, rel(o.Path))
	default:
		s += rel(o.Path)
		if o.Mode != 0 {
			s += fmt.Sprintf(", 0%o", o.Mode)
		}
	}
	s += ")"
	if o.Failed {
		s += " = FAILED"
	}
	return s
}

func c34Unhex(s string) (string, error) {
	var b []byte
	for i := 0; i < len(s); {
		if s[i] == '\\' && i+3 < len(s)+0 && s[i+1] == 'x' {
			if i+4 > len(s) {
				return "", errors.New("short escape")
			}
			v, err := strconv.ParseUint(s[i+2:i+4], 16, 8)
			if err != nil {
				return "", err
			}
			b = append(b, byte(v))
			i += 4
			continue
		}
		b = append(b, s[i])
		i++
	}
	return string(b), nil
}

// c34SplitArgs splits "a, b<..>, "..", {..}" at top-level commas.
func c34SplitArgs(s string) []string {
	var out []string
	depth, inq, ina := 0, false, false
	start := 0
	for i := 0; i < len(s); i++ {
		c := s[i]
		switch {
		case inq:
			if c == '"' {
				inq = false
			}
		case ina:
			if c == '>' {
				ina = false
			}
		case c == '"':
			inq = true
		case c == '<':
			ina = true
		case c == '(' || c == '[' || c == '{':
			depth++
		case c == ')' || c == ']' || c == '}':
			depth--
		case c == ',' && depth == 0:
			out = append(out, strings.TrimSpace(s[start:i]))
			start = i + 1
		}
	}
	if strings.TrimSpace(s[start:]) != "" {
		out = append(out, strings.TrimSpace(s[start:]))
	}
	return out
}

// c34FDArg parses `5<\x2f...>` or `AT_FDCWD<...>` into (fd, path). fd = -100 for AT_FDCWD.
func c34FDArg(a string) (int, string, error) {
	name, ann := a, ""
	if i := strings.IndexByte(a, '<'); i >= 0 && strings.HasSuffix(a, ">") {
		name, ann = a[:i], a[i+1:len(a)-1]
	}
	p, err := c34Unhex(ann)
	if err != nil {
		return 0, "", err
	}
	if name == "AT_FDCWD" {
		return -100, p, nil
	}
	fd, err := strconv.Atoi(name)
	return fd, p, err
}

func c34StrArg(a string) (string, error) {
	if len(a) < 2 || a[0] != '"' {
		return "", fmt.Errorf("not a string: %.40s", a)
	}
	if strings.HasSuffix(a, "...") {
		return "", errors.New("string truncated by strace")
	}
	if a[len(a)-1] != '"' {
		return "", fmt.Errorf("unterminated string: %.40s", a)
	}
	return c34Unhex(a[1 : len(a)-1])
}

func c34PathAt(dirArg, pathArg string) (string, error) {
	p, err := c34StrArg(pathArg)
	if err != nil {
		return "", err
	}
	if filepath.IsAbs(p) {
		return filepath.Clean(p), nil
	}
	_, dp, err := c34FDArg(dirArg)
	if err != nil {
		return "", err
	}
	return filepath.Join(dp, p), nil
}

func c34Octal(a string) uint32 {
	v, _ := strconv.ParseUint(strings.TrimSpace(a), 8, 32)
	return uint32(v)
}

var c34RetRe = regexp.MustCompile(`\)\s+= `)

// c34PendingMutator: does an unfinished call (text up to "<unfinished ...>") possibly change root?
func c34PendingMutator(head, rootHex string) bool {
	if !strings.Contains(head, rootHex) {
		return false
	}
	name := head
	if i := strings.IndexByte(head, '('); i > 0 {
		name = head[:i]
	}
	switch name {
	case "close", "fsync", "fdatasync", "faccessat", "faccessat2", "access":
		return false
	case "open", "openat", "openat2":
		return strings.Contains(head, "O_CREAT") || strings.Contains(head, "O_TRUNC") || !strings.Contains(head, "O_")
	}
	return true
}

type c34Trace struct {
	Ops        []c34Op
	Overlap    bool // two relevant syscalls overlapped in time (order ambiguous)
	Unknown    []string
	ExitStatus string
}

// c34ParseTrace reads strace -f -y -xx output and keeps the calls that touch paths under root.
func c34ParseTrace(traceFile, root string) (*c34Trace, error) {
	raw, err := os.ReadFile(traceFile)
	if err != nil {
		return nil, err
	}
	tr := &c34Trace{}
	under := func(p string) bool { return p == root || strings.HasPrefix(p, root+"/") }
	pending := map[string]string{} // pid -> unfinished text
	rootHex := c34HexOf(root)
	lines := strings.Split(string(raw), "\n")
	for ln, line := range lines {
		line = strings.TrimRight(line, " \r")
		if line == "" {
			continue
		}
		sp := strings.IndexByte(line, ' ')
		if sp < 0 {
			continue
		}
		pid := line[:sp]
		rest := strings.TrimSpace(line[sp:])
		if strings.HasPrefix(rest, "+++") {
			if strings.Contains(rest, "killed by") || strings.Contains(rest, "exited with") {
				tr.ExitStatus = rest
			}
			continue
		}
		if strings.HasPrefix(rest, "---") {
			continue
		}
		if strings.HasSuffix(rest, "<unfinished ...>") {
			pending[pid] = strings.TrimSpace(strings.TrimSuffix(rest, "<unfinished ...>"))
			continue
		}
		if strings.HasPrefix(rest, "<... ") {
			i := strings.Index(rest, "resumed>")
			if i < 0 {
				continue
			}
			head, ok := pending[pid]
			if !ok {
				continue
			}
			delete(pending, pid)
			rest = head + rest[i+len("resumed>"):]
		}
		// name(args) = ret ...
		po := strings.IndexByte(rest, '(')
		loc := c34RetRe.FindAllStringIndex(rest, -1)
		if po <= 0 || len(loc) == 0 || loc[len(loc)-1][0] < po {
			continue
		}
		eq, eqEnd := loc[len(loc)-1][0], loc[len(loc)-1][1]
		name := rest[:po]
		args := c34SplitArgs(rest[po+1 : eq])
		retTxt := strings.TrimSpace(rest[eqEnd:])
		retTok := retTxt
		if i := strings.IndexAny(retTok, " <"); i >= 0 {
			retTok = retTok[:i]
		}
		ret, rerr := strconv.ParseInt(retTok, 0, 64)
		op := c34Op{Line: ln + 1, Call: name, Ret: ret, Failed: rerr != nil || ret < 0}
		bad := func(e error) error { return fmt.Errorf("trace line %d (%s): %v", ln+1, name, e) }
		switch name {
		case "faccessat", "faccessat2", "access":
			pa := args
			var p string
			var e error
			if name == "access" {
				p, e = c34StrArg(pa[0])
			} else {
				p, e = c34PathAt(pa[0], pa[1])
			}
			if e != nil || !strings.HasPrefix(p, c34MarkDir) {
				continue
			}
			n, _ := strconv.Atoi(strings.SplitN(strings.TrimPrefix(p, c34MarkDir), ":", 2)[0])
			op.Kind, op.Marker, op.Failed = "marker", n, false
		case "mkdir", "mkdirat":
			var p string
			var e error
			if name == "mkdir" {
				p, e = c34StrArg(args[0])
				op.Mode = c34Octal(args[1])
			} else {
				p, e = c34PathAt(args[0], args[1])
				op.Mode = c34Octal(args[2])
			}
			if e != nil {
				return nil, bad(e)
			}
			if !under(p) {
				continue
			}
			op.Kind, op.Path = "mkdir", p
		case "open", "openat", "creat":
			var p string
			var e error
			var rest []string
			switch name {
			case "open":
				p, e = c34StrArg(args[0])
				rest = args[1:]
			case "creat":
				p, e = c34StrArg(args[0])
				rest = []string{"O_WRONLY|O_CREAT|O_TRUNC", args[1]}
			default:
				p, e = c34PathAt(args[0], args[1])
				rest = args[2:]
			}
			if e != nil {
				return nil, bad(e)
			}
			if !under(p) {
				continue
			}
			op.Kind, op.Path = "open", p
			if len(rest) > 0 {
				op.Flags = rest[0]
			}
			if len(rest) > 1 {
				op.Mode = c34Octal(rest[1])
			}
			if !op.Failed {
				op.FD = int(ret)
			}
		case "openat2":
			p, e := c34PathAt(args[0], args[1])
			if e == nil && under(p) {
				tr.Unknown = append(tr.Unknown, "openat2 on "+p)
			}
			continue
		case "write", "pwrite64":
			fd, p, e := c34FDArg(args[0])
			if e != nil {
				return nil, bad(e)
			}
			if !under(p) {
				continue
			}
			d, e := c34StrArg(args[1])
			if e != nil {
				return nil, bad(e)
			}
			op.Kind, op.FD, op.Path, op.Data, op.Off = "write", fd, p, []byte(d), -1
			if name == "pwrite64" {
				op.Off, _ = strconv.ParseInt(args[3], 0, 64)
			}
			if !op.Failed {
				if int(ret) > len(op.Data) {
					return nil, bad(errors.New("return value larger than decoded buffer"))
				}
				op.Data = op.Data[:ret]
			}
			op.Len = len(op.Data)
		case "writev", "pwritev", "pwritev2", "copy_file_range", "sendfile", "fallocate", "link", "linkat", "symlink", "symlinkat":
			// not modelled: only a problem if it touches the data dir
			hit := false
			for _, a := range args {
				if strings.Contains(a, "<") {
					if _, p, e := c34FDArg(a); e == nil && under(p) {
						hit = true
					}
				} else if strings.HasPrefix(a, "\"") {
					if p, e := c34StrArg(a); e == nil && under(p) {
						hit = true
					}
				}
			}
			if hit {
				tr.Unknown = append(tr.Unknown, name)
			}
			continue
		case "rename", "renameat", "renameat2":
			var p1, p2 string
			var e1, e2 error
			if name == "rename" {
				p1, e1 = c34StrArg(args[0])
				p2, e2 = c34StrArg(args[1])
			} else {
				p1, e1 = c34PathAt(args[0], args[1])
				p2, e2 = c34PathAt(args[2], args[3])
				if name == "renameat2" && len(args) > 4 && args[4] != "0" {
					tr.Unknown = append(tr.Unknown, "renameat2 flags "+args[4])
				}
			}
			if e1 != nil || e2 != nil {
				return nil, bad(fmt.Errorf("%v %v", e1, e2))
			}
			if !under(p1) && !under(p2) {
				continue
			}
			if !under(p1) || !under(p2) {
				tr.Unknown = append(tr.Unknown, "rename across the data dir boundary")
			}
			op.Kind, op.Path, op.Path2 = "rename", p1, p2
		case "unlink", "rmdir", "unlinkat":
			var p string
			var e error
			kind := "unlink"
			switch name {
			case "unlinkat":
				p, e = c34PathAt(args[0], args[1])
				if len(args) > 2 && strings.Contains(args[2], "AT_REMOVEDIR") {
					kind = "rmdir"
				}
			case "rmdir":
				p, e = c34StrArg(args[0])
				kind = "rmdir"
			default:
				p, e = c34StrArg(args[0])
			}
			if e != nil {
				return nil, bad(e)
			}
			if !under(p) {
				continue
			}
			op.Kind, op.Path = kind, p
		case "chmod", "fchmodat":
			var p string
			var e error
			if name == "chmod" {
				p, e = c34StrArg(args[0])
				op.Mode = c34Octal(args[1])
			} else {
				p, e = c34PathAt(args[0], args[1])
				op.Mode = c34Octal(args[2])
			}
			if e != nil {
				return nil, bad(e)
			}
			if !under(p) {
				continue
			}
			op.Kind, op.Path = "chmod", p
		case "fchmod":
			fd, p, e := c34FDArg(args[0])
			if e != nil {
				return nil, bad(e)
			}
			if !under(p) {
				continue
			}
			op.Kind, op.FD, op.Path, op.Mode = "chmod", fd, "", c34Octal(args[1])
			op.Path2 = p
		case "truncate":
			p, e := c34StrArg(args[0])
			if e != nil {
				return nil, bad(e)
			}
			if !under(p) {
				continue
			}
			op.Kind, op.Path, op.FD = "truncate", p, -1
			op.Off, _ = strconv.ParseInt(args[1], 0, 64)
		case "ftruncate":
			fd, p, e := c34FDArg(args[0])
			if e != nil {
				return nil, bad(e)
			}
			if !under(p) {
				continue
			}
			op.Kind, op.FD, op.Path2 = "truncate", fd, p
			op.Off, _ = strconv.ParseInt(args[1], 0, 64)
		case "fsync", "fdatasync":
			fd, p, e := c34FDArg(args[0])
			if e != nil || !under(p) {
				continue
			}
			op.Kind, op.FD, op.Path = "sync", fd, p
		case "close":
			fd, p, e := c34FDArg(args[0])
			if e != nil || !under(p) {
				continue
			}
			op.Kind, op.FD, op.Path = "close", fd, p
		default:
			continue
		}
		// a relevant call that completed while another thread had a call on the data dir in
		// flight makes the linearisation ambiguous
		if op.Kind != "marker" && op.Kind != "close" && op.Kind != "sync" {
			for opid, head := range pending {
				if opid != pid && c34PendingMutator(head, rootHex) {
					tr.Overlap = true
				}
			}
		}
		tr.Ops = append(tr.Ops, op)
	}
	return tr, nil
}

func c34HexOf(s string) string {
	var b strings.Builder
	for i := 0; i < len(s); i++ {
		fmt.Fprintf(&b, "\\x%02x", s[i])
	}
	return b.String()
}

// ------------------------------------------------------------------ directory model

type c34Inode struct {
	data []byte
	mode uint32
}

type c34FD struct {
	ino    *c34Inode
	off    int64
	append bool
}

type c34FS struct {
	root  string
	umask uint32
	dirs  map[string]uint32
	files map[string]*c34Inode
	fds   map[int]*c34FD
	errs  []string
}

func c34Umask() uint32 {
	b, err := os.ReadFile("/proc/self/status")
	if err != nil {
		return 0o022
	}
	for _, l := range strings.Split(string(b), "\n") {
		if strings.HasPrefix(l, "Umask:") {
			v, err := strconv.ParseUint(strings.TrimSpace(strings.TrimPrefix(l, "Umask:")), 8, 32)
			if err == nil {
				return uint32(v)
			}
		}
	}
	return 0o022
}

// c34ScanFS builds the model from a real directory tree rooted at root.
func c34ScanFS(root string, umask uint32) (*c34FS, error) {
	m := &c34FS{root: root, umask: umask, dirs: map[string]uint32{}, files: map[string]*c34Inode{}, fds: map[int]*c34FD{}}
	err := filepath.WalkDir(root, func(p string, d fs.DirEntry, err error) error {
		if err != nil {
			return err
		}
		info, err := d.Info()
		if err != nil {
			return err
		}
		if d.IsDir() {
			m.dirs[p] = uint32(info.Mode().Perm())
			return nil
		}
		if !info.Mode().IsRegular() {
			return fmt.Errorf("non-regular file %s", p)
		}
		b, err := os.ReadFile(p)
		if err != nil {
			return err
		}
		m.files[p] = &c34Inode{data: b, mode: uint32(info.Mode().Perm())}
		return nil
	})
	return m, err
}

func (m *c34FS) clone() *c34FS {
	n := &c34FS{root: m.root, umask: m.umask, dirs: map[string]uint32{}, files: map[string]*c34Inode{}, fds: map[int]*c34FD{}}
	for k, v := range m.dirs {
		n.dirs[k] = v
	}
	for k, v := range m.files {
		n.files[k] = &c34Inode{data: append([]byte(nil), v.data...), mode: v.mode}
	}
	return n
}

// apply executes one recorded call on the model. torn >= 0 limits a write to torn bytes.
// It reports whether the visible directory state changed.
func (m *c34FS) apply(o c34Op, torn int) bool {
	if o.Failed {
		return false
	}
	switch o.Kind {
	case "mkdir":
		if _, ok := m.dirs[o.Path]; ok {
			m.errs = append(m.errs, "mkdir of existing "+o.Path)
			return false
		}
		m.dirs[o.Path] = o.Mode &^ m.umask
		return true
	case "open":
		ino, ok := m.files[o.Path]
		changed := false
		if !ok {
			if !strings.Contains(o.Flags, "O_CREAT") {
				if _, isDir := m.dirs[o.Path]; !isDir {
					m.errs = append(m.errs, "open of unknown file "+o.Path)
				}
				return false
			}
			ino = &c34Inode{mode: o.Mode &^ m.umask}
			m.files[o.Path] = ino
			changed = true
		}
		if strings.Contains(o.Flags, "O_TRUNC") && len(ino.data) > 0 {
			ino.data = nil
			changed = true
		}
		m.fds[o.FD] = &c34FD{ino: ino, append: strings.Contains(o.Flags, "O_APPEND")}
		return changed
	case "write":
		f, ok := m.fds[o.FD]
		if !ok {
			m.errs = append(m.errs, fmt.Sprintf("write on untracked fd %d (%s)", o.FD, o.Path))
			return false
		}
		d := o.Data
		if torn >= 0 && torn < len(d) {
			d = d[:torn]
		}
		if len(d) == 0 {
			return false
		}
		off := f.off
		if o.Off >= 0 {
			off = o.Off
		} else if f.append {
			off = int64(len(f.ino.data))
		}
		need := int(off) + len(d)
		if need > len(f.ino.data) {
			f.ino.data = append(f.ino.data, make([]byte, need-len(f.ino.data))...)
		}
		copy(f.ino.data[off:], d)
		if o.Off < 0 {
			f.off = off + int64(len(d))
		}
		return true
	case "close":
		delete(m.fds, o.FD)
		return false
	case "sync":
		return false
	case "rename":
		if ino, ok := m.files[o.Path]; ok {
			delete(m.files, o.Path)
			m.files[o.Path2] = ino
			return true
		}
		if mode, ok := m.dirs[o.Path]; ok {
			pre := o.Path + "/"
			for k, v := range m.dirs {
				if strings.HasPrefix(k, pre) {
					delete(m.dirs, k)
					m.dirs[o.Path2+"/"+k[len(pre):]] = v
				}
			}
			for k, v := range m.files {
				if strings.HasPrefix(k, pre) {
					delete(m.files, k)
					m.files[o.Path2+"/"+k[len(pre):]] = v
				}
			}
			delete(m.dirs, o.Path)
			m.dirs[o.Path2] = mode
			return true
		}
		m.errs = append(m.errs, "rename of unknown "+o.Path)
		return false
	case "unlink":
		if _, ok := m.files[o.Path]; !ok {
			m.errs = append(m.errs, "unlink of unknown "+o.Path)
			return false
		}
		delete(m.files, o.Path)
		return true
	case "rmdir":
		if _, ok := m.dirs[o.Path]; !ok {
			m.errs = append(m.errs, "rmdir of unknown "+o.Path)
			return false
		}
		delete(m.dirs, o.Path)
		return true
	case "chmod":
		if o.Path == "" {
			if f, ok := m.fds[o.FD]; ok {
				f.ino.mode = o.Mode
				return true
			}
			m.errs = append(m.errs, "fchmod on untracked fd")
			return false
		}
		if ino, ok := m.files[o.Path]; ok {
			ino.mode = o.Mode
			return true
		}
		if _, ok := m.dirs[o.Path]; ok {
			m.dirs[o.Path] = o.Mode
			return true
		}
		m.errs = append(m.errs, "chmod of unknown "+o.Path)
		return false
	case "truncate":
		var ino *c34Inode
		if o.FD >= 0 {
			if f, ok := m.fds[o.FD]; ok {
				ino = f.ino
			}
		} else {
			ino = m.files[o.Path]
		}
		if ino == nil {
			m.errs = append(m.errs, "truncate of unknown file")
			return false
		}
		if int(o.Off) <= len(ino.data) {
			ino.data = ino.data[:o.Off]
		} else {
			ino.data = append(ino.data, make([]byte, int(o.Off)-len(ino.data))...)
		}
		return true
	}
	return false
}

func (m *c34FS) paths() []string {
	var ps []string
	for k := range m.dirs {
		ps = append(ps, k)
	}
	for k := range m.files {
		ps = append(ps, k)
	}
	sort.Strings(ps)
	return ps
}

// hash is the content hash of the visible state; shape ignores contents (names, sizes, modes).
func (m *c34FS) hash() string {
	h := sha256.New()
	for _, p := range m.paths() {
		rel := strings.TrimPrefix(p, m.root)
		if mode, ok := m.dirs[p]; ok {
			fmt.Fprintf(h, "D %s %o\n", rel, mode)
		} else {
			f := m.files[p]
			fmt.Fprintf(h, "F %s %o %d %x\n", rel, f.mode, len(f.data), sha256.Sum256(f.data))
		}
	}
	return hex.EncodeToString(h.Sum(nil))[:16]
}

func (m *c34FS) shape() string {
	var b strings.Builder
	for _, p := range m.paths() {
		rel := strings.TrimPrefix(p, m.root)
		if rel == "" {
			continue
		}
		if mode, ok := m.dirs[p]; ok {
			fmt.Fprintf(&b, "%s/ %o; ", rel, mode)
		} else {
			f := m.files[p]
			fmt.Fprintf(&b, "%s %o %dB; ", rel, f.mode, len(f.data))
		}
	}
	return b.String()
}

// skeleton is shape without sizes (timestamps make the size of a state file vary by a few bytes).
func (m *c34FS) skeleton() string {
	var b strings.Builder
	for _, p := range m.paths() {
		rel := strings.TrimPrefix(p, m.root)
		if rel == "" {
			continue
		}
		if mode, ok := m.dirs[p]; ok {
			fmt.Fprintf(&b, "%s/ %o; ", rel, mode)
		} else {
			f := m.files[p]
			fmt.Fprintf(&b, "%s %o empty=%v; ", rel, f.mode, len(f.data) == 0)
		}
	}
	return b.String()
}

// materialise writes the model below newRoot (which must exist and be empty).
func (m *c34FS) materialise(newRoot string) error {
	ps := m.paths()
	for _, p := range ps {
		rel := strings.TrimPrefix(p, m.root)
		if rel == "" {
			continue
		}
		dst := newRoot + rel
		if _, ok := m.dirs[p]; ok {
			if err := os.Mkdir(dst, 0o700); err != nil {
				return err
			}
			continue
		}
		f := m.files[p]
		if err := os.WriteFile(dst, f.data, 0o600); err != nil {
			return err
		}
		if err := os.Chmod(dst, os.FileMode(f.mode)); err != nil {
			return err
		}
	}
	// directory modes last (a read-only dir would block the writes above)
	for i := len(ps) - 1; i >= 0; i-- {
		p := ps[i]
		if mode, ok := m.dirs[p]; ok && p != m.root {
			if err := os.Chmod(newRoot+strings.TrimPrefix(p, m.root), os.FileMode(mode)); err != nil {
				return err
			}
		}
	}
	return nil
}

// ------------------------------------------------------------------ recording and next start

type c34Scenario struct {
	Name       string   `json:"name"`
	ExplicitID string   `json:"explicit_id,omitempty"`
	Nest       int      `json:"nest"`
	Plan       []string `json:"plan"`
	PollMS     int      `json:"poll_ms"`
}

const c34TraceSet = "trace=mkdir,mkdirat,open,openat,openat2,creat,write,pwrite64,writev,pwritev,pwritev2," +
	"rename,renameat,renameat2,unlink,unlinkat,rmdir,chmod,fchmod,fchmodat,truncate,ftruncate," +
	"link,linkat,symlink,symlinkat,fsync,fdatasync,close,faccessat,faccessat2,access,copy_file_range,sendfile,fallocate"

type c34Env struct {
	r      *verifkit.R
	t      *testing.T
	exe    string
	strace string
	umask  uint32
	mu     sync.Mutex
	seq    int
	base   string
}

func (e *c34Env) newDir(prefix string) string {
	e.mu.Lock()
	e.seq++
	n := e.seq
	e.mu.Unlock()
	d := filepath.Join(e.base, fmt.Sprintf("%s%05d", prefix, n))
	if err := os.MkdirAll(d, 0o755); err != nil {
		e.t.Fatalf("mkdir: %v", err)
	}
	return d
}

func c34DataDir(root string, nest int) string {
	d := root
	for i := 0; i <= nest; i++ {
		d = filepath.Join(d, []string{"data", "mesh", "agent", "x"}[i%4])
	}
	return d
}

func (e *c34Env) childEnv(mode, dataDir, outFile string, sc c34Scenario) []string {
	env := []string{}
	for _, kv := range os.Environ() {
		if strings.HasPrefix(kv, "C34_") || strings.HasPrefix(kv, "VERIF_OUT=") || strings.HasPrefix(kv, "VERIF_CASES=") {
			continue
		}
		env = append(env, kv)
	}
	return append(env, "C34_MODE="+mode, "C34_DIR="+dataDir, "C34_OUT="+outFile,
		"C34_PLAN="+strings.Join(sc.Plan, ","), "C34_ID="+sc.ExplicitID, "C34_POLL_MS="+strconv.Itoa(sc.PollMS))
}

type c34Run struct {
	Out      c34ChildOut
	Exit     int
	Stderr   string
	TimedOut bool
	NoResult bool
}

func (e *c34Env) runChild(mode, dataDir string, sc c34Scenario, wrap []string, limit time.Duration) c34Run {
	outFile := filepath.Join(e.newDir("out"), "child.json")
	ctx, cancel := context.WithTimeout(context.Background(), limit)
	defer cancel()
	argv := append(append([]string{}, wrap...), e.exe, "-test.run=^TestVerif_C34_Child$", "-test.count=1")
	cmd := exec.CommandContext(ctx, argv[0], argv[1:]...)
	cmd.Env = e.childEnv(mode, dataDir, outFile, sc)
	cmd.Dir = filepath.Dir(outFile)
	var eb bytes.Buffer
	cmd.Stdout, cmd.Stderr = &eb, &eb
	err := cmd.Run()
	res := c34Run{Stderr: eb.String()}
	if len(res.Stderr) > 1500 {
		res.Stderr = res.Stderr[len(res.Stderr)-1500:]
	}
	if ctx.Err() != nil {
		res.TimedOut = true
		return res
	}
	if err != nil {
		var ee *exec.ExitError
		if errors.As(err, &ee) {
			res.Exit = ee.ExitCode()
		} else {
			res.Exit = -2
			res.Stderr += "\n" + err.Error()
		}
	}
	b, rerr := os.ReadFile(outFile)
	if rerr != nil || json.Unmarshal(b, &res.Out) != nil {
		res.NoResult = true
	}
	return res
}

type c34Recording struct {
	Sc      c34Scenario
	Root    string // real root the recording ran in
	DataDir string
	Init    *c34FS
	Trace   *c34Trace
	Child   c34ChildOut
	Killed  bool
}

// record runs the plan under strace with root pre-populated from init (nil = empty root).
func (e *c34Env) record(sc c34Scenario, init *c34FS, inject string) (*c34Recording, string) {
	work := e.newDir("rec")
	root := filepath.Join(work, "fs")
	if err := os.Mkdir(root, 0o755); err != nil {
		return nil, err.Error()
	}
	if init != nil {
		if err := init.materialise(root); err != nil {
			return nil, "materialise: " + err.Error()
		}
	}
	scan, err := c34ScanFS(root, e.umask)
	if err != nil {
		return nil, "scan: " + err.Error()
	}
	dataDir := c34DataDir(root, sc.Nest)
	traceFile := filepath.Join(work, "trace.txt")
	mk := func(seccomp bool) []string {
		w := []string{e.strace, "-f", "-y", "-xx", "-s", "65536", "-o", traceFile}
		if seccomp {
			w = append(w, "--seccomp-bpf")
		}
		w = append(w, "-e", c34TraceSet)
		if inject != "" {
			w = append(w, "-e", "inject="+inject)
		}
		return w
	}
	// (with --seccomp-bpf strace 6.1 silently skips fault injection, so kill runs go without it)
	run := e.runChild("record", dataDir, sc, mk(inject == ""), 5*time.Minute)
	if run.NoResult && !run.TimedOut && inject == "" {
		if _, serr := os.Stat(traceFile); serr != nil {
			run = e.runChild("record", dataDir, sc, mk(false), 5*time.Minute)
		}
	}
	if run.TimedOut {
		return nil, "recording child exceeded the watchdog"
	}
	rec := &c34Recording{Sc: sc, Root: root, DataDir: dataDir, Init: scan, Child: run.Out}
	tr, err := c34ParseTrace(traceFile, root)
	if err != nil {
		return nil, "trace parse: " + err.Error()
	}
	rec.Trace = tr
	if inject != "" {
		rec.Killed = run.NoResult
		return rec, ""
	}
	if run.NoResult || !run.Out.OK {
		return nil, fmt.Sprintf("recording child failed: exit=%d stage=%s err=%s stderr=%s", run.Exit, run.Out.Stage, run.Out.Err, run.Stderr)
	}
	return rec, ""
}

// ------------------------------------------------------------------ enumeration

type c34Pos struct {
	N       int    // number of ops fully applied
	Torn    int    // -1, or ops[N] is a write applied only up to Torn bytes
	Kind    string // what the crash interrupted / followed
	Markers int    // markers contained in the prefix
	AtMark  bool
}

type c34Verdict struct {
	Pos      c34Pos      `json:"pos"`
	After    string      `json:"after_syscall"`
	Dir      string      `json:"directory"`
	Allowed  []string    `json:"allowed_sleep,omitempty"`
	Got      c34ChildOut `json:"next_start"`
	Exit     int         `json:"exit"`
	Scenario string      `json:"scenario"`
}

func c34Uniq(xs []int, n int) []int {
	seen := map[int]bool{}
	var out []int
	for _, x := range xs {
		if x > 0 && x < n && !seen[x] {
			seen[x] = true
			out = append(out, x)
		}
	}
	sort.Ints(out)
	return out
}

// positions lists every crash point of a recording: after each call that changed the directory,
// at each marker, and inside each write.
func c34Positions(rec *c34Recording, rng *verifkit.Rand) (pos []c34Pos, unchanged int) {
	m := rec.Init.clone()
	markers := 0
	pos = append(pos, c34Pos{N: 0, Torn: -1, Kind: "before-first-syscall"})
	for i, o := range rec.Trace.Ops {
		if o.Kind == "write" && !o.Failed {
			n := len(o.Data)
			for _, k := range c34Uniq([]int{1, n / 2, n - 1, 1 + rng.Intn(n)}, n) {
				pos = append(pos, c34Pos{N: i, Torn: k, Kind: "torn-write", Markers: markers})
			}
		}
		kind := o.Kind
		if o.Kind == "open" {
			if _, ok := m.files[o.Path]; ok && strings.Contains(o.Flags, "O_TRUNC") {
				kind = "open-truncate-existing"
			} else {
				kind = "open-create"
			}
		}
		changed := m.apply(o, -1)
		if o.Kind == "marker" {
			markers++
			pos = append(pos, c34Pos{N: i + 1, Torn: -1, Kind: "quiescent", Markers: markers, AtMark: true})
			continue
		}
		if !changed {
			unchanged++
			continue
		}
		pos = append(pos, c34Pos{N: i + 1, Torn: -1, Kind: "after-" + kind, Markers: markers})
	}
	return pos, unchanged
}

func c34StateAt(rec *c34Recording, p c34Pos) *c34FS {
	m := rec.Init.clone()
	for i := 0; i < p.N; i++ {
		m.apply(rec.Trace.Ops[i], -1)
	}
	if p.Torn >= 0 {
		m.apply(rec.Trace.Ops[p.N], p.Torn)
	}
	return m
}

type c34Stored struct {
	ID  string
	Pub string
}

func c34LoadStored(dataDir string) c34Stored {
	var s c34Stored
	if id, err := identity.Load(dataDir); err == nil {
		s.ID = id.String()
	}
	if kp, err := identity.LoadKeypair(dataDir); err == nil {
		s.Pub = hex.EncodeToString(kp.PublicKey[:])
	}
	return s
}

// explore enumerates and judges every crash point of one recording. phase names the verifkit
// phase; level 2 recordings (crash during the recovery start) pass the positions of level 1.
func (e *c34Env) explore(rec *c34Recording, phase string, caseBase int, rng *verifkit.Rand, workers int) (idPhase []c34Pos) {
	r := e.r
	sc := rec.Sc
	ops := rec.Trace.Ops
	positions, unchanged := c34Positions(rec, rng)
	r.Add("syscalls_recorded", len(ops))
	r.Add("crash_points_state_unchanged_skipped", unchanged)
	// marker bookkeeping
	nMarkers := 0
	newMarker := 0 // index (1-based) of the marker that ends the first "new" step
	for _, o := range ops {
		if o.Kind == "marker" {
			nMarkers++
		}
	}
	for k, op := range sc.Plan {
		if op == "new" {
			newMarker = k + 1
			break
		}
	}
	snaps := append([]c34Sleep{{State: "AWAKE"}}, rec.Child.Snaps...)
	// hashes of the state at each marker: a crash point is non-trivial when its directory
	// differs from the quiescent states around it
	markHash := map[int]string{0: rec.Init.hash()}
	for _, p := range positions {
		if p.AtMark {
			markHash[p.Markers] = c34StateAt(rec, p).hash()
		}
	}
	var wg sync.WaitGroup
	ch := make(chan int, workers)
	for w := 0; w < workers; w++ {
		wg.Add(1)
		go func() {
			defer wg.Done()
			for pi := range ch {
				e.judge(rec, phase, caseBase+pi, positions[pi], snaps, nMarkers, newMarker, markHash)
			}
		}()
	}
	for pi, p := range positions {
		if newMarker > 0 && p.Markers < newMarker && !p.AtMark {
			idPhase = append(idPhase, p)
		}
		if r.Wanted(phase, caseBase+pi) {
			ch <- pi
		}
	}
	close(ch)
	wg.Wait()
	return idPhase
}

func (e *c34Env) judge(rec *c34Recording, phase string, ci int, p c34Pos, snaps []c34Sleep, nMarkers, newMarker int, markHash map[int]string) {
	r := e.r
	sc := rec.Sc
	defer func() {
		if x := recover(); x != nil {
			r.Violation("panic:harness", phase, ci, fmt.Sprint(x), nil)
		}
	}()
	st := c34StateAt(rec, p)
	work := e.newDir("pos")
	root := filepath.Join(work, "fs")
	if err := os.Mkdir(root, 0o755); err != nil {
		r.Inconclusive("mkdir: " + err.Error())
		return
	}
	if err := st.materialise(root); err != nil {
		r.Inconclusive("materialise: " + err.Error())
		return
	}
	dataDir := c34DataDir(root, sc.Nest)
	stored := c34LoadStored(dataDir)
	run := e.runChild("start", dataDir, sc, nil, 3*time.Minute)
	if run.TimedOut {
		r.Inconclusive("next-start child exceeded the watchdog")
		return
	}
	after := "(nothing)"
	if p.Torn >= 0 {
		after = fmt.Sprintf("%d of %d bytes of %s", p.Torn, len(rec.Trace.Ops[p.N].Data), rec.Trace.Ops[p.N].Short(rec.Root))
	} else if p.N > 0 {
		after = rec.Trace.Ops[p.N-1].Short(rec.Root)
	}
	v := c34Verdict{Pos: p, After: after, Dir: st.shape(), Got: run.Out, Exit: run.Exit, Scenario: sc.Name}
	// which plan step was interrupted
	step := "idle"
	if !p.AtMark && p.Markers < len(sc.Plan) {
		step = sc.Plan[p.Markers]
	}
	class := map[string]string{"new": "identity-creation", "start": "start", "sleep": "sleep-save", "poll": "sleep-save", "wake": "sleep-save", "idle": "quiescent"}[step]
	h := st.hash()
	nontrivial := h != markHash[p.Markers] && (p.Markers+1 > nMarkers || h != markHash[p.Markers+1])
	r.Eval(fmt.Sprintf("%s|%s|%d|%d", sc.Name, phase, p.N, p.Torn), nontrivial)
	r.Add("next_starts", 1)
	r.Add("crash_points:"+p.Kind, 1)
	r.Add("crash_points_in:"+class, 1)
	bad := func(key, detail string) {
		r.Violation(key, phase, ci, detail+"\ncrash point: after "+after+"\ndirectory left behind: "+st.shape(), v)
	}
	if run.NoResult || run.Exit != 0 || !run.Out.OK {
		r.Add("next_start_failed", 1)
		bad("start-failed:"+class+"/"+p.Kind, fmt.Sprintf("next start failed: exit=%d stage=%s err=%q stderr=%s", run.Exit, run.Out.Stage, run.Out.Err, run.Stderr))
		return
	}
	got := run.Out
	// identity consistency
	if got.DiskErr != "" || got.DiskPub != got.Pub {
		bad("identity:public-key-mismatch", fmt.Sprintf("agent advertises %s, private key on disk derives %s (%s)", got.Pub, got.DiskPub, got.DiskErr))
	}
	if stored.ID != "" {
		r.Add("stored_id_seen", 1)
		if got.ID != stored.ID {
			bad("identity:agent-id-replaced", fmt.Sprintf("crashed directory held loadable agent id %s, next start runs as %s", stored.ID, got.ID))
		}
	}
	if stored.Pub != "" {
		r.Add("stored_keypair_seen", 1)
		if got.Pub != stored.Pub {
			bad("identity:keypair-replaced", fmt.Sprintf("crashed directory held loadable keypair %s, next start uses %s", stored.Pub, got.Pub))
		}
	}
	if newMarker > 0 && p.Markers >= newMarker {
		r.Add("after_completed_creation", 1)
		if got.ID != rec.Child.ID || got.Pub != rec.Child.Pub {
			bad("identity:changed-after-completed-creation", fmt.Sprintf("creating run reported id=%s pub=%s, next start has id=%s pub=%s", rec.Child.ID, rec.Child.Pub, got.ID, got.Pub))
		}
	} else if sc.ExplicitID != "" && got.ID != sc.ExplicitID {
		bad("identity:configured-id-not-used", "configured "+sc.ExplicitID+" got "+got.ID)
	}
	// a further restart keeps whatever this start stored
	if class == "identity-creation" || p.N == 0 {
		again := e.runChild("start", dataDir, sc, nil, 3*time.Minute)
		r.Add("second_restarts", 1)
		if again.TimedOut {
			r.Inconclusive("second restart exceeded the watchdog")
		} else if again.NoResult || again.Exit != 0 || !again.Out.OK {
			bad("start-failed:restart-after-recovery", fmt.Sprintf("second restart failed: exit=%d err=%q", again.Exit, again.Out.Err))
		} else if again.Out.ID != got.ID || again.Out.Pub != got.Pub {
			bad("identity:not-stable-across-restarts", fmt.Sprintf("first restart id=%s pub=%s, second id=%s pub=%s", got.ID, got.Pub, again.Out.ID, again.Out.Pub))
		}
	}
	// sleep state: equal to the state before or after the interrupted step
	var allowed []c34Sleep
	if p.Markers < len(snaps) {
		allowed = append(allowed, snaps[p.Markers])
	}
	if !p.AtMark && p.Markers+1 < len(snaps) {
		allowed = append(allowed, snaps[p.Markers+1])
	}
	if len(allowed) > 0 {
		okFull, okState := false, false
		for _, a := range allowed {
			v.Allowed = append(v.Allowed, a.String())
			if a == got.Sleep {
				okFull = true
			}
			if a.State == got.Sleep.State {
				okState = true
			}
		}
		r.Add("sleep_state_judged", 1)
		if len(allowed) == 2 && allowed[0] != allowed[1] {
			r.Add("sleep_state_judged_mid_save", 1)
		}
		if !okFull {
			sym := "timestamps-neither-before-nor-after"
			if !okState {
				sym = "state-neither-before-nor-after"
			}
			bad("sleep-state/"+p.Kind+":"+sym, fmt.Sprintf("next start has sleep state %s; allowed (before/after the interrupted %q step): %v", got.Sleep, step, v.Allowed))
		}
	}
	if r.NeedSample() && nontrivial && class == "sleep-save" {
		r.Sample(v)
	}
}

// ------------------------------------------------------------------ the check

func TestVerif_C34(t *testing.T) {
	r := verifkit.Start(t, "C34", "agent")
	r.Rule("one evaluation = one crash point (prefix of the strace-recorded filesystem syscalls of a real agent run, " +
		"or a torn prefix of one write) materialised into a fresh directory and restarted with the real agent; " +
		"non-trivial = the directory left behind differs from the quiescent directory states before and after the " +
		"interrupted plan step; distinct by (scenario, syscall index, torn length)")
	r.Assume("process death keeps everything already handed to the kernel (page cache survives): crash states are exactly the prefixes of the syscall sequence; power loss / reordering of unsynced writes is out of scope")
	r.Assume("a single write(2) may be cut at any byte; metadata syscalls (mkdir, rename, unlink, chmod) are atomic")
	strace, err := exec.LookPath("strace")
	if err != nil {
		r.Inconclusive("strace not available")
		return
	}
	exe, err := os.Executable()
	if err != nil {
		r.Inconclusive("cannot locate test binary: " + err.Error())
		return
	}
	base := t.TempDir()
	if os.Getenv("C34_KEEP") != "" && os.Getenv("VERIF_WORK") != "" {
		base = filepath.Join(os.Getenv("VERIF_WORK"), "c34-tmp") // debugging aid: keep traces and directories
	}
	e := &c34Env{r: r, t: t, exe: exe, strace: strace, umask: c34Umask(), base: base}
	seedRng := r.CaseRand("plan", 0)
	explicit := hex.EncodeToString(seedRng.Bytes(16))
	workers := 4

	var scenarios []c34Scenario
	if r.Quick() {
		scenarios = []c34Scenario{
			{Name: "fresh-auto", Nest: 1 + seedRng.Intn(2), PollMS: 2000, Plan: []string{"new", "start", "sleep", "poll", "wake", "sleep"}},
		}
	} else {
		scenarios = []c34Scenario{
			{Name: "fresh-auto", Nest: 1 + seedRng.Intn(2), PollMS: 2000,
				Plan: []string{"new", "start", "sleep", "poll", "poll", "wake", "sleep", "poll", "wake"}},
			{Name: "explicit-id-restored", ExplicitID: explicit, Nest: seedRng.Intn(3), PollMS: 2000,
				Plan: []string{"new", "new", "start", "sleep", "poll"}},
		}
	}
	allComplete := true
	shapes := map[string]bool{}
	for si, sc := range scenarios {
		phase := "crash:" + sc.Name
		var rec *c34Recording
		var why string
		for attempt := 0; attempt < 3; attempt++ {
			rec, why = e.record(sc, nil, "")
			if rec == nil {
				break
			}
			if len(rec.Child.Flags) == 0 && !rec.Trace.Overlap {
				break
			}
			why = fmt.Sprintf("recording not clean: flags=%v overlap=%v", rec.Child.Flags, rec.Trace.Overlap)
			r.Add("recordings_retried", 1)
			rec = nil
		}
		if rec == nil {
			r.Inconclusive("scenario " + sc.Name + ": " + why)
			allComplete = false
			continue
		}
		r.Add("recordings", 1)
		if !e.modelMatchesDisk(rec) {
			allComplete = false
			continue
		}
		if si == 0 {
			var lines []string
			for _, o := range rec.Trace.Ops {
				lines = append(lines, o.Short(rec.Root))
			}
			r.Set("syscall_trace_"+sc.Name, lines)
			r.Sample(map[string]any{"scenario": sc, "recorded_syscalls_on_data_dir": lines, "sleep_state_after_each_step": rec.Child.Snaps})
			r.Set("recorded_sleep_states_"+sc.Name, rec.Child.Snaps)
		}
		idPhase := e.explore(rec, phase, 0, r.CaseRand(phase, 0), workers)
		for _, p := range c34AllPrefixPositions(rec) {
			shapes[c34StateAt(rec, p).skeleton()] = true
		}
		// level 2 (thorough): crash again during the start that recovers from a crash in creation
		if !r.Quick() && sc.ExplicitID == "" {
			sc2 := sc
			sc2.Name = sc.Name + "/recovery"
			sc2.Plan = []string{"new"}
			for k, p := range idPhase {
				ph2 := "crash2:" + sc.Name
				init := c34StateAt(rec, p)
				rec2, why := e.record(sc2, init, "")
				if rec2 == nil {
					// the recovery start itself failing is judged at level 1; here it only means no trace
					r.Add("level2_recordings_failed", 1)
					_ = why
					continue
				}
				if rec2.Trace.Overlap || !e.modelMatchesDisk(rec2) {
					allComplete = false
					continue
				}
				r.Add("level2_recordings", 1)
				e.explore(rec2, ph2, k*1000, r.CaseRand(ph2, k), workers)
			}
		}
	}
	if !r.Quick() && len(shapes) > 0 {
		e.killCheck(scenarios[0], shapes)
	}
	if !r.Quick() {
		r.Require("kills_landed", 4)
	}
	r.Exhaustive(allComplete)
	r.Require("next_starts", 40)
	r.Require("crash_points:torn-write", 8)
	r.Require("sleep_state_judged_mid_save", 6)
	r.Require("stored_id_seen", 10)
	r.Require("stored_keypair_seen", 10)
	r.Require("after_completed_creation", 10)
}

// c34AllPrefixPositions: plain prefixes only (what a real kill can produce).
func c34AllPrefixPositions(rec *c34Recording) []c34Pos {
	var ps []c34Pos
	for i := 0; i <= len(rec.Trace.Ops); i++ {
		ps = append(ps, c34Pos{N: i, Torn: -1})
	}
	return ps
}

// modelMatchesDisk validates the syscall model: replaying the whole trace must reproduce the
// directory the recording really left behind.
func (e *c34Env) modelMatchesDisk(rec *c34Recording) bool {
	r := e.r
	if len(rec.Trace.Unknown) > 0 {
		r.Inconclusive(fmt.Sprintf("trace contains calls on the data dir that the model does not cover: %v", rec.Trace.Unknown))
		return false
	}
	m := rec.Init.clone()
	for _, o := range rec.Trace.Ops {
		m.apply(o, -1)
	}
	disk, err := c34ScanFS(rec.Root, e.umask)
	if err != nil {
		r.Inconclusive("scan after recording: " + err.Error())
		return false
	}
	if len(m.errs) > 0 || m.hash() != disk.hash() {
		r.Inconclusive(fmt.Sprintf("syscall model diverges from the real directory: model={%s} disk={%s} errs=%v", m.shape(), disk.shape(), m.errs))
		return false
	}
	r.Add("model_equals_disk_checks", 1)
	return true
}

// killCheck: real SIGKILLs delivered by strace at the N-th occurrence of a syscall must leave a
// directory whose shape the enumeration contains, and the next start on it must hold too.
func (e *c34Env) killCheck(sc c34Scenario, shapes map[string]bool) {
	r := e.r
	sc.Name = "kill"
	sc.Plan = []string{"new", "start", "sleep"}
	phase := "kill"
	calls := []string{"renameat", "openat", "write", "mkdirat", "close"}
	var kmu sync.Mutex
	var log []string
	defer func() { r.Set("real_kill_runs", log) }()
	r.Cases(phase, 16, func(i int, rng *verifkit.Rand) {
		call := calls[i%len(calls)]
		// strace counts invocations per thread; goroutines migrate, so keep N small
		when := 1 + rng.Intn(3)
		if call == "openat" || call == "close" {
			when = 1 + rng.Intn(12)
		}
		rec, why := e.record(sc, nil, fmt.Sprintf("%s:signal=SIGKILL:when=%d", call, when))
		if rec == nil {
			r.Inconclusive("kill recording: " + why)
			return
		}
		disk, err := c34ScanFS(rec.Root, e.umask)
		if err != nil {
			r.Inconclusive("scan: " + err.Error())
			return
		}
		r.Add("kill_runs", 1)
		kmu.Lock()
		log = append(log, fmt.Sprintf("%s#%d killed=%v -> {%s}", call, when, rec.Killed, disk.skeleton()))
		kmu.Unlock()
		if rec.Killed {
			r.Add("kills_landed", 1)
		}
		// shapes were collected relative to another root; shape() is root-relative already
		if !shapes[disk.skeleton()] {
			r.Inconclusive(fmt.Sprintf("a real SIGKILL (%s #%d) left a directory the enumeration does not contain: {%s}", call, when, disk.shape()))
			return
		}
		r.Add("kill_states_contained", 1)
		stored := c34LoadStored(rec.DataDir)
		run := e.runChild("start", rec.DataDir, sc, nil, 3*time.Minute)
		r.Eval(fmt.Sprintf("kill|%s|%d", call, when), rec.Killed)
		w := map[string]any{"inject": call, "when": when, "dir": disk.shape(), "next_start": run.Out}
		if run.TimedOut {
			r.Inconclusive("next start after kill exceeded the watchdog")
			return
		}
		if run.NoResult || run.Exit != 0 || !run.Out.OK {
			r.Violation("start-failed:after-real-kill", phase, i, fmt.Sprintf("exit=%d err=%q", run.Exit, run.Out.Err), w)
			return
		}
		if run.Out.DiskPub != run.Out.Pub {
			r.Violation("identity:public-key-mismatch", phase, i, "after real kill", w)
		}
		if stored.ID != "" && stored.ID != run.Out.ID {
			r.Violation("identity:agent-id-replaced", phase, i, "after real kill", w)
		}
		if stored.Pub != "" && stored.Pub != run.Out.Pub {
			r.Violation("identity:keypair-replaced", phase, i, "after real kill", w)
		}
	})
}
