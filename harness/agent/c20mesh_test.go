package agent

// C20 (mesh part) — several real agents, each owning DIFFERENT port-forward keys, connected over
// loopback QUIC so that every agent also LEARNS the other agents' keys (forward routes are
// advertised through the mesh). A port-forward endpoint may connect only for a key configured on
// ITSELF: a STREAM_OPEN "forward:<K>" with an empty remaining path that reaches agent X for a key
// X merely learned from another agent must be refused with the not-found error and nothing may
// be connected — even though the advertised target string ("127.0.0.1:p") is connectable from X.
//
// Nothing of the agents is replaced here (the agent part rebuilds the forward handler with a
// recorder and therefore cannot see how the agent wires its own handler). Requests are injected as
// frames from a really connected neighbour (Agent.handleStreamOpen(neighbourID, frame)); the
// answer travels over the real connection and is observed at the verifhook point
// "peer.frame.write" (frame tap in peer.Connection.WriteFrame): exactly one STREAM_OPEN_ACK or
// STREAM_OPEN_ERR per request id. Ground truth for "connected": accepts on one loopback listener per
// key, marker-connection barrier after the answer. In-package for handleStreamOpen / routeMgr polling.

import (
	"context"
	"fmt"
	"net"
	"os"
	"path/filepath"
	"sort"
	"strings"
	"sync"
	"testing"
	"time"

	"github.com/postalsys/muti-metroo/internal/config"
	"github.com/postalsys/muti-metroo/internal/crypto"
	"github.com/postalsys/muti-metroo/internal/identity"
	"github.com/postalsys/muti-metroo/internal/protocol"
	"github.com/postalsys/muti-metroo/internal/transport"
	"github.com/postalsys/muti-metroo/internal/verifhook"
	"github.com/postalsys/muti-metroo/internal/verifkit"
)

const c20mWatchdog = 30 * time.Second

type c20mAnswer struct {
	Ack  bool
	Code uint16
}

// c20mTap: answers observed on the wire, by request id.
type c20mTap struct {
	mu      sync.Mutex
	waiting map[uint64]chan c20mAnswer
	seen    int
}

func (t *c20mTap) expect(req uint64) chan c20mAnswer {
	t.mu.Lock()
	defer t.mu.Unlock()
	ch := make(chan c20mAnswer, 4)
	t.waiting[req] = ch
	return ch
}

func (t *c20mTap) forget(req uint64) { t.mu.Lock(); delete(t.waiting, req); t.mu.Unlock() }

func (t *c20mTap) hook(args ...any) {
	if len(args) < 3 {
		return
	}
	f, ok := args[2].(*protocol.Frame)
	if !ok || f == nil {
		return
	}
	var req uint64
	var ans c20mAnswer
	switch f.Type {
	case protocol.FrameStreamOpenAck:
		a, err := protocol.DecodeStreamOpenAck(f.Payload)
		if err != nil {
			return
		}
		req, ans = a.RequestID, c20mAnswer{Ack: true}
	case protocol.FrameStreamOpenErr:
		e, err := protocol.DecodeStreamOpenErr(f.Payload)
		if err != nil {
			return
		}
		req, ans = e.RequestID, c20mAnswer{Code: e.ErrorCode}
	default:
		return
	}
	t.mu.Lock()
	t.seen++
	ch := t.waiting[req]
	t.mu.Unlock()
	if ch != nil {
		select {
		case ch <- ans:
		default:
		}
	}
}

func c20mFreeUDP(n int) ([]string, error) {
	var out []string
	var cs []*net.UDPConn
	for i := 0; i < n; i++ {
		c, err := net.ListenUDP("udp", &net.UDPAddr{IP: net.IPv4(127, 0, 0, 1)})
		if err != nil {
			return nil, err
		}
		cs = append(cs, c)
		out = append(out, c.LocalAddr().String())
	}
	for _, c := range cs {
		c.Close()
	}
	return out, nil
}

func TestVerif_C20Mesh(t *testing.T) {
	r := verifkit.Start(t, "C20", "mesh")
	r.Rule("real 3-agent chains over loopback QUIC, every agent owning 0-2 different forward keys (each key -> its own loopback listener, target strings connectable from every agent), forward routes propagated to all agents; " +
		"crafted STREAM_OPEN forward:<K> frames with an empty (or [self]) remaining path for every key known anywhere in the mesh (and near-misses) to every agent; non-trivial = mesh in which >=1 own key connected and >=1 merely-learned key was refused; distinct by (ownership, requests)")
	r.Assume("route propagation is awaited by polling (never judged); the answer to a request is observed at the frame tap peer.frame.write")

	const nSinks = 6
	var sinks []*kitSink
	for j := 0; j < nSinks; j++ {
		s, err := newKitSink()
		if err != nil {
			r.Inconclusive("cannot open loopback listeners: " + err.Error())
			return
		}
		defer s.Close()
		sinks = append(sinks, s)
	}
	barrierAll := func() (map[int]int, bool) {
		got := map[int]int{}
		for i, s := range sinks {
			accs, ok := s.barrier()
			if !ok {
				return nil, false
			}
			if len(accs) > 0 {
				got[i] = len(accs)
			}
		}
		return got, true
	}
	tap := &c20mTap{waiting: map[uint64]chan c20mAnswer{}}
	restore := verifhook.Set("peer.frame.write", tap.hook)
	defer restore()
	root := t.TempDir()
	var reqSeq uint64 = 7 << 32

	nMesh := r.N(4, 40)
	r.Cases("mesh", nMesh, func(ci int, rng *verifkit.Rand) {
		// ---- ownership: agent i owns keys own[i]; at least two agents own something
		pool := []string{"web", "web-1", "we", "WEB", "db", "ssh", "svc.internal", "forward:web", "k\x00x"}
		verifkit.Shuffle(rng, pool)
		var own [3][]string
		owner := map[string]int{}
		tgt := map[string]int{}
		ki := 0
		for i := 0; i < 3; i++ {
			n := rng.Intn(3)
			if i == 0 && n == 0 {
				n = 1
			}
			if i == 2 && len(own[0])+len(own[1]) < 2 && n == 0 {
				n = 1
			}
			for j := 0; j < n && ki < nSinks; j++ {
				k := pool[ki]
				own[i] = append(own[i], k)
				owner[k] = i
				tgt[k] = ki
				ki++
			}
		}
		addrs, err := c20mFreeUDP(3)
		if err != nil {
			r.Inconclusive("no UDP ports: " + err.Error())
			return
		}
		var agents [3]*Agent
		stop := func() {
			for _, a := range agents {
				if a == nil {
					continue
				}
				ctx, cancel := context.WithTimeout(context.Background(), c20mWatchdog)
				if err := a.StopWithContext(ctx); err != nil {
					r.Inconclusive("an agent did not stop within the watchdog")
				}
				cancel()
			}
		}
		defer stop()
		for i := 2; i >= 0; i-- {
			dir := filepath.Join(root, fmt.Sprintf("m%d-a%d", ci, i))
			if err := os.MkdirAll(dir, 0o755); err != nil {
				r.Inconclusive(err.Error())
				return
			}
			certPEM, keyPEM, err := transport.GenerateSelfSignedCert(fmt.Sprintf("agent-%d", i), 24*time.Hour)
			if err != nil {
				r.Inconclusive(err.Error())
				return
			}
			cf, kf := filepath.Join(dir, "cert.pem"), filepath.Join(dir, "key.pem")
			os.WriteFile(cf, certPEM, 0o600)
			os.WriteFile(kf, keyPEM, 0o600)
			cfg := config.Default()
			cfg.Agent.DataDir = dir
			cfg.Agent.LogLevel = "error"
			cfg.Connections.IdleThreshold = 60 * time.Second
			cfg.Listeners = []config.ListenerConfig{{Transport: "quic", Address: addrs[i], TLS: config.TLSConfig{Cert: cf, Key: kf}}}
			if i < 2 {
				cfg.Peers = []config.PeerConfig{{ID: "auto", Transport: "quic", Address: addrs[i+1]}}
			}
			for _, k := range own[i] {
				cfg.Forward.Endpoints = append(cfg.Forward.Endpoints, config.ForwardEndpoint{Key: k, Target: fmt.Sprintf("127.0.0.1:%d", sinks[tgt[k]].Port)})
			}
			a, err := New(cfg)
			if err != nil {
				r.Inconclusive("agent.New: " + err.Error())
				return
			}
			if err := a.Start(); err != nil {
				r.Inconclusive("agent.Start: " + err.Error())
				return
			}
			agents[i] = a
		}
		// ---- wait until every agent knows every key and has its neighbours connected
		allKeys := make([]string, 0, len(owner))
		for k := range owner {
			allKeys = append(allKeys, k)
		}
		sort.Strings(allKeys)
		neigh := [3][]int{{1}, {0, 2}, {1}}
		converged := false
		for deadline := time.Now().Add(c20mWatchdog); time.Now().Before(deadline); time.Sleep(20 * time.Millisecond) {
			ok := true
			for i, a := range agents {
				for _, k := range allKeys {
					if a.routeMgr.LookupForward(k) == nil {
						ok = false
					}
				}
				for _, n := range neigh[i] {
					if a.peerMgr.GetPeer(agents[n].ID()) == nil {
						ok = false
					}
				}
			}
			if ok {
				converged = true
				break
			}
		}
		if !converged {
			r.Inconclusive("forward routes did not reach every agent within the watchdog")
			return
		}
		if _, ok := barrierAll(); !ok {
			r.Inconclusive("sink barrier failed (watchdog)")
			return
		}
		_, eph, err := crypto.GenerateEphemeralKeypair()
		if err != nil {
			r.Inconclusive("keygen: " + err.Error())
			return
		}
		type req struct {
			Agent     int    `json:"agent"`
			From      int    `json:"from_neighbour"`
			Key       string `json:"key_hex"`
			Class     string `json:"class"`
			Answer    string `json:"answer"`
			Connected []int  `json:"connected_listeners,omitempty"`
		}
		var reqs []req
		ownership := map[string]any{}
		for i := range own {
			hx := []string{}
			for _, k := range own[i] {
				hx = append(hx, verifkit.Hex([]byte(k)))
			}
			ownership[fmt.Sprintf("agent%d_keys_hex", i)] = hx
		}
		witness := func() any { return map[string]any{"ownership": ownership, "requests": reqs} }
		nOwn, nLearned := 0, 0
		sid := uint64(2000001)
		for rep := 0; rep < 2; rep++ {
			for xi, x := range agents {
				keys := append([]string{}, allKeys...)
				keys = append(keys, allKeys[rng.Intn(len(allKeys))]+"x", "nosuch", strings.ToUpper(allKeys[rng.Intn(len(allKeys))]))
				verifkit.Shuffle(rng, keys)
				for _, k := range keys {
					from := neigh[xi][rng.Intn(len(neigh[xi]))]
					s := protocol.ForwardStreamPrefix + k
					if len(s) > 255 {
						continue
					}
					reqSeq++
					sid += 2
					o := &protocol.StreamOpen{RequestID: reqSeq, AddressType: protocol.AddrTypeDomain, Address: append([]byte{byte(len(s))}, s...), Port: 0, EphemeralPubKey: eph}
					if rng.Chance(1, 4) {
						o.RemainingPath = []identity.AgentID{x.ID()}
					}
					ow, known := owner[k]
					class := "unknown-anywhere"
					switch {
					case known && ow == xi:
						class = "own-key"
					case known:
						class = "key-of-another-agent"
					}
					ch := tap.expect(reqSeq)
					x.handleStreamOpen(agents[from].ID(), &protocol.Frame{Type: protocol.FrameStreamOpen, StreamID: sid, Payload: o.Encode()})
					var ans c20mAnswer
					answered := false
					tm := time.NewTimer(c20mWatchdog)
					select {
					case ans = <-ch:
						answered = true
					case <-tm.C:
					}
					tm.Stop()
					tap.forget(reqSeq)
					if !answered {
						tap.mu.Lock()
						seen := tap.seen
						tap.mu.Unlock()
						if seen == 0 {
							r.Inconclusive("hook not reached: peer.frame.write (frame tap call site is not in this tree)")
						} else {
							r.Inconclusive("an open request was not answered on the wire within the watchdog")
						}
						return
					}
					got, ok := barrierAll()
					if !ok {
						r.Inconclusive("sink barrier failed (watchdog)")
						return
					}
					// tear the stream down again on x
					x.handleStreamClose(agents[from].ID(), &protocol.Frame{Type: protocol.FrameStreamClose, StreamID: sid})
					rq := req{Agent: xi, From: from, Key: verifkit.Hex([]byte(k)), Class: class}
					rq.Answer = fmt.Sprintf("err %d", ans.Code)
					if ans.Ack {
						rq.Answer = "ack"
					}
					for li := range got {
						rq.Connected = append(rq.Connected, li)
					}
					sort.Ints(rq.Connected)
					reqs = append(reqs, rq)
					r.Add("requests", 1)
					r.Add("requests:"+class, 1)
					if class == "own-key" {
						for li := range got {
							if li != tgt[k] {
								r.Violation("known-key:connected-to-other-target", "mesh", ci,
									fmt.Sprintf("agent %d connected to listener #%d for its own key (hex %s), whose target is #%d", xi, li, rq.Key, tgt[k]), witness())
							}
						}
						if got[tgt[k]] > 0 && ans.Ack {
							nOwn++
							r.Add("own_key_connected", 1)
						} else {
							r.Add("own_key_not_connected", 1)
						}
						continue
					}
					bad := false
					if len(got) > 0 {
						bad = true
						r.Violation("unknown-key:"+class+":connected", "mesh", ci,
							fmt.Sprintf("agent %d has no endpoint for key (hex %s, %s) but a STREAM_OPEN forward:<key> with an empty path made it connect to listener(s) %v (answer %s)", xi, rq.Key, class, rq.Connected, rq.Answer), witness())
					}
					if ans.Ack || ans.Code != protocol.ErrForwardNotFound {
						bad = true
						r.Violation("unknown-key:"+class+":not-refused-with-not-found", "mesh", ci,
							fmt.Sprintf("agent %d has no endpoint for key (hex %s, %s) but answered %s instead of error %d", xi, rq.Key, class, rq.Answer, protocol.ErrForwardNotFound), witness())
					}
					if !bad {
						r.Add("foreign_or_unknown_key_refused", 1)
						if class == "key-of-another-agent" {
							nLearned++
							r.Add("learned_key_refused", 1)
						}
					}
				}
			}
		}
		var sb strings.Builder
		for _, q := range reqs {
			fmt.Fprintf(&sb, "%d<%d:%s>%s;", q.Agent, q.From, q.Key, q.Answer)
		}
		nontriv := nOwn > 0 && nLearned > 0
		r.Eval(fmt.Sprintf("%v|%s", ownership, sb.String()), nontriv)
		if nontriv && r.NeedSample() {
			w := witness().(map[string]any)
			if len(reqs) > 12 {
				w["requests"] = reqs[:12]
			}
			r.Sample(w)
		}
	})
	r.Require("requests", 60)
	r.Require("own_key_connected", 10)
	r.Require("learned_key_refused", 15)
}
