package agent

// C16 — concurrent tunnels stay isolated and byte-exact across shared hops.
//
// Real agents over loopback QUIC (meshkit). Every tunnel carries its own deterministic byte
// stream per direction (a function of tunnel id, direction and offset), so a byte from another
// tunnel, a lost, duplicated or reordered chunk, or a foreign close shows at the application
// ends. The frame tap reconstructs the per-connection stream ids of every tunnel and computes
// the structural precondition of the known stream-id keying defect (two tunnels using the same
// stream id on two different connections of one agent). Scenarios where that precondition
// occurred are reported under `collision:*` keys, all others under `clean:*`.

import (
	"fmt"
	"net"
	"sync"
	"testing"
	"time"

	"github.com/postalsys/muti-metroo/internal/config"
	"github.com/postalsys/muti-metroo/internal/verifkit"
)

type c16Topo struct {
	Name      string
	Spec      mkSpec
	Ingresses []int
	// exits: node index -> second octet of the 127.x.0.0/16 network it serves
	Exits map[int]int
	// forward endpoints: node index -> key
	Fwd map[int]string
	// CollisionProne is informational only (the verdict class is computed from the tap)
	CollisionProne bool
}

func c16Topologies() []c16Topo {
	return []c16Topo{
		{Name: "chain4", Spec: mkChain(4), Ingresses: []int{0}, Exits: map[int]int{3: 1}, Fwd: map[int]string{3: "fwd-exit"}},
		{Name: "chain4-transit-is-forward-endpoint", Spec: mkChain(4), Ingresses: []int{0}, Exits: map[int]int{3: 1}, Fwd: map[int]string{3: "fwd-exit", 2: "fwd-mid"}, CollisionProne: true},
		{Name: "chain3", Spec: mkChain(3), Ingresses: []int{0}, Exits: map[int]int{2: 1}, Fwd: map[int]string{2: "fwd-exit"}},
		{Name: "pair", Spec: mkChain(2), Ingresses: []int{0}, Exits: map[int]int{1: 1}, Fwd: map[int]string{1: "fwd-exit"}},
		{Name: "two-ingress-shared-transit", Spec: mkSpec{Names: []string{"I1", "I2", "T", "E"}, Edges: [][2]int{{0, 2}, {1, 2}, {2, 3}}},
			Ingresses: []int{0, 1}, Exits: map[int]int{3: 1}, CollisionProne: true},
		{Name: "two-ingress-one-exit", Spec: mkSpec{Names: []string{"I1", "I2", "E"}, Edges: [][2]int{{0, 2}, {1, 2}}},
			Ingresses: []int{0, 1}, Exits: map[int]int{2: 1}, Fwd: map[int]string{2: "fwd-exit"}, CollisionProne: true},
		{Name: "one-ingress-two-exits", Spec: mkSpec{Names: []string{"I", "E1", "E2"}, Edges: [][2]int{{0, 1}, {0, 2}}},
			Ingresses: []int{0}, Exits: map[int]int{1: 1, 2: 2}, CollisionProne: true},
		{Name: "transit-dials-two-exits", Spec: mkSpec{Names: []string{"I", "T", "E1", "E2"}, Edges: [][2]int{{0, 1}, {1, 2}, {1, 3}}},
			Ingresses: []int{0}, Exits: map[int]int{2: 1, 3: 2}, CollisionProne: true},
	}
}

type c16Outcome struct {
	Topo       string             `json:"topology"`
	Tunnels    int                `json:"tunnels"`
	Collisions int                `json:"collisions"`
	Class      string             `json:"class"`
	Failures   []string           `json:"failures,omitempty"`
	Plans      []mkTunnelPlan     `json:"plans,omitempty"`
	MaxPayload int64              `json:"max_frame_payload"`
	Frames     int64              `json:"frames_tapped"`
}

// c16Opts tunes a scenario run (shared with C17/C04/C07).
type c16Opts struct {
	Idle       time.Duration // connections.idle_threshold of every agent (default 30 s)
	RefusedPct int           // percentage of tunnels dialled to a closed port (open must fail)
	ClosedPort int
	// Fault, when set, runs concurrently with the tunnels (link kills etc.).
	Fault func(m *mkMesh, rng *verifkit.Rand)
	Sizes []int64 // when set, sizes are drawn only from this list
	OrderlyOnly bool
	Watchdog   time.Duration // per-tunnel client deadline (default 60 s clean / 6 s collision-prone)
	AbortHeavy bool // most tunnels are large downloads the client cancels part-way
	ChunkWhole bool // client writes each direction with a single Write call
	TapHook    func(tap *mkTap) // called right after the frame tap is installed
	SkipDataOracle bool // C17 judges bookkeeping only (faults legitimately cut tunnels short)
}

// c16ExtraCfg, when set, is applied to every node's configuration by c16BuildMesh (scenarios run
// one at a time).
var c16ExtraCfg func(i int, c *config.Config)

// c16BuildMesh builds the topology with a destination server and waits for every route.
func c16BuildMesh(t testing.TB, tp c16Topo, dest *mkDest, idle time.Duration) (*mkMesh, error) {
	spec := tp.Spec
	if idle <= 0 {
		idle = 30 * time.Second
	}
	extra := c16ExtraCfg
	spec.Cfg = func(i int, c *config.Config) {
		if extra != nil {
			extra(i, c)
		}
		c.Connections.IdleThreshold = idle
		if oct, ok := tp.Exits[i]; ok {
			c.Exit.Enabled = true
			c.Exit.Routes = []string{fmt.Sprintf("127.%d.0.0/16", oct)}
		}
		if key, ok := tp.Fwd[i]; ok {
			c.Forward.Endpoints = append(c.Forward.Endpoints, config.ForwardEndpoint{Key: key, Target: fmt.Sprintf("127.0.0.1:%d", dest.port)})
		}
	}
	m, err := mkBuild(t, spec)
	if err != nil {
		return nil, err
	}
	for _, in := range tp.Ingresses {
		for ex, oct := range tp.Exits {
			if err := m.waitRoute(in, fmt.Sprintf("127.%d.0.1", oct), ex, 60*time.Second); err != nil {
				m.stop()
				return nil, err
			}
		}
		for _, key := range tp.Fwd {
			if err := m.waitForwardRoute(in, key, 60*time.Second); err != nil {
				m.stop()
				return nil, err
			}
		}
	}
	return m, nil
}

func c16Plans(rng *verifkit.Rand, tp c16Topo, dest *mkDest, n int, maxBytes int64, base uint64, opts c16Opts) []mkTunnelPlan {
	exits := []int{}
	for e := range tp.Exits {
		exits = append(exits, e)
	}
	// deterministic order
	for i := 0; i < len(exits); i++ {
		for j := i + 1; j < len(exits); j++ {
			if exits[j] < exits[i] {
				exits[i], exits[j] = exits[j], exits[i]
			}
		}
	}
	fwdKeys := []string{}
	for _, k := range tp.Fwd {
		fwdKeys = append(fwdKeys, k)
	}
	for i := 0; i < len(fwdKeys); i++ {
		for j := i + 1; j < len(fwdKeys); j++ {
			if fwdKeys[j] < fwdKeys[i] {
				fwdKeys[i], fwdKeys[j] = fwdKeys[j], fwdKeys[i]
			}
		}
	}
	sizes := []int64{0, 1, 100, 4096, 16355, 16356, 16357, 16384, 16385, 40000, 70000}
	plans := make([]mkTunnelPlan, 0, n)
	for i := 0; i < n; i++ {
		p := mkTunnelPlan{ID: base + uint64(i) + 1, Ingress: tp.Ingresses[i%len(tp.Ingresses)]}
		if len(fwdKeys) > 0 && rng.Chance(1, 4) {
			p.Via = "forward:" + fwdKeys[rng.Intn(len(fwdKeys))]
		} else {
			ex := exits[rng.Intn(len(exits))]
			p.Via = "tcp"
			p.Dest = fmt.Sprintf("127.%d.%d.%d:%d", tp.Exits[ex], 1+rng.Intn(200), 1+rng.Intn(250), dest.port)
		}
		pick := func() int64 {
			if len(opts.Sizes) > 0 {
				return opts.Sizes[rng.Intn(len(opts.Sizes))]
			}
			if rng.Chance(1, 3) {
				s := sizes[rng.Intn(len(sizes))]
				if s <= maxBytes {
					return s
				}
			}
			return int64(rng.Intn(int(maxBytes) + 1))
		}
		p.C2S, p.S2C = pick(), pick()
		switch k := rng.Intn(10); {
		case k < 7:
			p.Mode = mkModeOrderly
		case k < 9:
			p.Mode = mkModeClientAbort
		default:
			p.Mode = mkModeServerAbort
		}
		if opts.OrderlyOnly {
			p.Mode = mkModeOrderly
		}
		if opts.AbortHeavy && i%4 != 0 {
			p.Mode = mkModeClientAbort
			p.S2C = int64(1500000 + rng.Intn(1500000))
			p.C2S = int64(rng.Intn(2000))
			p.AbortAfter = int64(1 + rng.Intn(120000)) // cancel while the far end is still pumping
		}
		if p.Via == "tcp" && opts.RefusedPct > 0 && rng.Intn(100) < opts.RefusedPct {
			p.Mode = mkModeRefused
			host, _, _ := net.SplitHostPort(p.Dest)
			p.Dest = fmt.Sprintf("%s:%d", host, opts.ClosedPort)
		}
		p.Chunk = []int{1, 7, 512, 4096, 16356, 16384, 65536}[rng.Intn(7)]
		if p.Chunk < 512 && p.C2S > 20000 {
			p.Chunk = 4096 // keep tiny-chunk tunnels short
		}
		p.ReadBuf = []int{0, 0, 100, 1000, 4096, 9000, 16356, 65536}[rng.Intn(8)]
		if p.ReadBuf > 0 && p.ReadBuf < 1000 && p.S2C > 300000 {
			p.ReadBuf = 1000
		}
		if opts.ChunkWhole && p.C2S > 0 {
			p.Chunk = int(p.C2S)
		}
		plans = append(plans, p)
	}
	return plans
}

// c16Judge applies the byte-exactness / isolation oracle to one finished tunnel.
func c16Judge(cs *mkClientSide, ss *mkServerSide, tapIdleFor time.Duration) (symptoms []string, inconclusive string) {
	p := cs.Plan
	if p.Mode == mkModeRefused {
		if cs.DialErr == "" {
			return []string{"open-to-closed-port-succeeded"}, ""
		}
		return nil, ""
	}
	if cs.DialErr != "" {
		return []string{"open-failed"}, ""
	}
	if !cs.Meshed {
		return nil, "tunnel did not go through the mesh (route missing)"
	}
	if cs.BadAt >= 0 {
		symptoms = append(symptoms, "s2c-wrong-bytes")
	}
	if ss != nil && ss.BadAt >= 0 {
		symptoms = append(symptoms, "c2s-wrong-bytes")
	}
	if ss == nil {
		if p.Mode == mkModeClientAbort {
			// the client may abort before its first write (the tunnel header) is flushed: a
			// destination connection that sees EOF before any data is then legitimate
			return symptoms, ""
		}
		symptoms = append(symptoms, "server-never-saw-tunnel")
		return symptoms, ""
	}
	stalled := cs.TimedOut
	if p.Mode == mkModeOrderly {
		if cs.Got != p.S2C || ss.Got != p.C2S || !cs.SawEOF || !ss.SawEOF || cs.WriteErr != "" || (cs.ReadErr != "" && !cs.TimedOut) {
			switch {
			case stalled && tapIdleFor < 5*time.Second && tapIdleFor >= 0:
				return symptoms, "watchdog fired while frames were still moving"
			case stalled:
				symptoms = append(symptoms, "stall-data-lost")
			case cs.Got < p.S2C || ss.Got < p.C2S:
				symptoms = append(symptoms, "premature-close")
			case cs.Got > p.S2C || ss.Got > p.C2S:
				symptoms = append(symptoms, "extra-bytes")
			default:
				symptoms = append(symptoms, "close-error")
			}
		}
	} else {
		// abort modes: only the prefix property is judged (never more than was sent, never wrong bytes)
		if cs.Got > p.S2C || ss.Got > p.C2S {
			symptoms = append(symptoms, "extra-bytes")
		}
	}
	return symptoms, ""
}

// c16RunScenario runs one topology with n concurrent tunnels and returns the outcome.
func c16RunScenario(t testing.TB, r *verifkit.R, phase string, ci int, rng *verifkit.Rand, tp c16Topo, n int, maxBytes int64, opts c16Opts) (*c16Outcome, []*mkClientSide, *mkMesh, *mkDest, *mkTap) {
	dest, err := mkStartDest()
	if err != nil {
		r.Inconclusive("cannot start destination server: " + err.Error())
		return nil, nil, nil, nil, nil
	}
	tap := mkInstallTap()
	if opts.TapHook != nil {
		opts.TapHook(tap)
	}
	m, err := c16BuildMesh(t, tp, dest, opts.Idle)
	if err != nil {
		tap.close()
		dest.close()
		r.Inconclusive(fmt.Sprintf("%s: mesh did not come up: %v", tp.Name, err))
		return nil, nil, nil, nil, nil
	}
	if opts.RefusedPct > 0 && opts.ClosedPort == 0 {
		if l, err := net.Listen("tcp", "127.0.0.1:0"); err == nil {
			opts.ClosedPort = l.Addr().(*net.TCPAddr).Port
			l.Close()
		}
	}
	plans := c16Plans(rng, tp, dest, n, maxBytes, uint64(ci)<<20, opts)
	watchdog := 60 * time.Second
	if tp.CollisionProne {
		watchdog = 6 * time.Second
	}
	if opts.Watchdog > 0 {
		watchdog = opts.Watchdog
	}
	results := make([]*mkClientSide, len(plans))
	var wg sync.WaitGroup
	if opts.Fault != nil {
		wg.Add(1)
		frng := rng.Fork()
		go func() {
			defer wg.Done()
			opts.Fault(m, frng)
		}()
	}
	for i := range plans {
		wg.Add(1)
		go func(i int) {
			defer wg.Done()
			results[i] = mkRunTunnel(m, plans[i], watchdog)
		}(i)
		if rng.Chance(1, 3) {
			time.Sleep(time.Duration(rng.Intn(3)) * time.Millisecond)
		}
	}
	wg.Wait()
	// let server sides finish recording
	deadline := time.Now().Add(10 * time.Second)
	for time.Now().Before(deadline) {
		all := true
		for _, p := range plans {
			if s := dest.side(p.ID); s != nil && !s.Done {
				all = false
			}
		}
		if all {
			break
		}
		time.Sleep(10 * time.Millisecond)
	}
	evs := tap.snapshot()
	traces := mkTraceTunnels(evs)
	coll := mkCollisions(traces)
	out := &c16Outcome{Topo: tp.Name, Tunnels: len(plans), Collisions: len(coll), Class: "clean", MaxPayload: tap.maxLen.Load(), Frames: tap.nFrames.Load()}
	if len(coll) > 0 {
		out.Class = "collision"
	}
	idle := time.Since(time.Unix(0, tap.lastData.Load()))
	if len(coll) > 0 {
		idle = -1 // collision class: a timed-out tunnel is a symptom of the known defect, never "inconclusive"
	}
	symptomSet := map[string][]string{}
	for _, cs := range results {
		syms, inc := c16Judge(cs, dest.side(cs.Plan.ID), idle)
		if inc != "" && !opts.SkipDataOracle {
			r.Inconclusive(fmt.Sprintf("%s tunnel %d: %s", tp.Name, cs.Plan.ID, inc))
		}
		for _, s := range syms {
			symptomSet[s] = append(symptomSet[s], fmt.Sprintf("tunnel %d via %s mode=%d c2s=%d/%d s2c=%d/%d dial=%q werr=%q rerr=%q eof=%v", cs.Plan.ID, cs.Plan.Via, cs.Plan.Mode,
				func() int64 { if s := dest.side(cs.Plan.ID); s != nil { return s.Got }; return -1 }(), cs.Plan.C2S, cs.Got, cs.Plan.S2C, cs.DialErr, cs.WriteErr, cs.ReadErr, cs.SawEOF))
		}
	}
	dest.mu.Lock()
	bogus := append([]string(nil), dest.bogus...)
	dest.mu.Unlock()
	abortedEarly := 0 // client-abort tunnels whose header never reached the destination
	for _, cs := range results {
		if cs.Plan.Mode == mkModeClientAbort && cs.DialErr == "" && dest.side(cs.Plan.ID) == nil {
			abortedEarly++
		}
	}
	for _, b := range bogus {
		if len(b) >= 7 && b[:7] == "err=EOF" {
			if abortedEarly > 0 {
				abortedEarly--
				continue
			}
			symptomSet["destination-conn-without-data"] = append(symptomSet["destination-conn-without-data"], b)
		} else {
			symptomSet["destination-got-foreign-bytes"] = append(symptomSet["destination-got-foreign-bytes"], b)
		}
	}
	for s, ds := range symptomSet {
		out.Failures = append(out.Failures, s)
		if opts.SkipDataOracle {
			continue
		}
		key := "clean:" + s
		if out.Class == "collision" {
			// one key for the whole class: which symptom appears (lost data, wrong tunnel closed,
			// open never answered, ...) depends on timing; the structural precondition is what
			// identifies the finding.
			key = "collision:tunnel-disturbed"
		}
		r.Violation(key, phase, ci, fmt.Sprintf("symptom %s; topology %s, %d concurrent tunnels, %d tunnels share a stream id with another tunnel on a different connection of one agent (computed from the tap); %d tunnels affected, e.g. %s",
			s, tp.Name, len(plans), len(coll), len(ds), ds[0]), map[string]any{"plans": plans, "affected": ds})
	}
	out.Plans = plans
	return out, results, m, dest, tap
}

func TestVerif_C16(t *testing.T) {
	r := verifkit.Start(t, "C16", "mesh-tcp")
	if !mkHooksPresent() {
		r.Inconclusive("frame tap hooks not compiled in (build tag verif)")
		return
	}
	r.Rule("scenario = topology x PRNG set of concurrent TCP/forward tunnels (sizes, modes orderly/client-abort/server-abort, write chunking) over real agents on loopback QUIC; " +
		"each tunnel direction carries a deterministic per-tunnel byte stream verified byte-by-byte at both application ends; " +
		"non-trivial = scenario with >= 2 concurrent tunnels that all went through the mesh; distinct by (topology, tunnel plans)")
	r.Assume("ICMP sessions cannot be exercised end to end (sandbox denies ICMP sockets); UDP associations are covered by part mesh-udp")
	topos := c16Topologies()
	clean, prone := []c16Topo{}, []c16Topo{}
	for _, tp := range topos {
		if tp.CollisionProne {
			prone = append(prone, tp)
		} else {
			clean = append(clean, tp)
		}
	}
	nClean := r.N(6, 60)
	nProne := r.N(3, 24)
	maxBytes := int64(r.N(120000, 1500000))
	run := func(phase string, tps []c16Topo, n int) {
		r.Cases(phase, n, func(ci int, rng *verifkit.Rand) {
			tp := tps[ci%len(tps)]
			k := rng.Range(2, r.N(16, 48))
			if ci < len(tps) {
				k = rng.Range(8, 16)
			}
			out, results, m, dest, tap := c16RunScenario(t, r, phase, ci, rng, tp, k, maxBytes, c16Opts{})
			if out == nil {
				return
			}
			meshed := 0
			for _, cs := range results {
				if cs.Meshed {
					meshed++
				}
				r.Add("bytes_verified_s2c", int(cs.Got))
			}
			r.Add("tunnels", len(results))
			r.Add("tunnels_"+out.Class, len(results))
			r.Add("frames_tapped", int(out.Frames))
			r.Add("id_collisions_computed", out.Collisions)
			r.Add("scenarios_"+out.Class, 1)
			hung := m.stop()
			tap.close()
			dest.close()
			if len(hung) > 0 {
				r.Add("agents_stop_watchdog", len(hung))
			}
			r.Eval(fmt.Sprintf("%s/%v", tp.Name, out.Plans), meshed >= 2 && meshed == len(results))
			if r.NeedSample() {
				s := *out
				if len(s.Plans) > 4 {
					s.Plans = s.Plans[:4]
				}
				r.Sample(s)
			}
		})
	}
	run("clean", clean, nClean)
	run("prone", prone, nProne)
	r.Require("tunnels_clean", 20)
	r.Require("frames_tapped", 200)
}
