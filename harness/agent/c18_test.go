package agent

// C18 (mesh part) — half-close / close semantics end to end: three real agents A - B - C over
// loopback QUIC (A ingress, B transit relay, C exit + file-transfer target), a real loopback TCP
// server behind C.
//
//   conn   — A.Dial through the mesh (must return a *meshConn): write, CloseWrite, write again
//            (must be refused), the server must have received every byte then EOF, what the server
//            writes after it saw EOF must still arrive at A before end-of-stream; a second
//            connection closed in the middle must not disturb the first.
//   finerr — the real "FIN frame that carries data" sender: C refuses a download of a path outside
//            its allowed paths by sending the encrypted error metadata *together with* FIN_WRITE and
//            then STREAM_CLOSE, while A is blocked in Stream.Read waiting for the response. A must
//            report the remote error text (= the data that arrived with the FIN), not end-of-stream.
//            The verifhook point "stream.fin_before_push" (when present) yields the processor for a
//            moment between the two halves of such a frame, so that the blocked reader runs; this
//            only widens the window, the verdict is on what A returned.
//
// In-package only for the *meshConn type assertion and routeMgr polling while the mesh converges.

import (
	"bytes"
	"context"
	"errors"
	"fmt"
	"io"
	"net"
	"os"
	"path/filepath"
	"strings"
	"sync"
	"sync/atomic"
	"testing"
	"time"

	"github.com/postalsys/muti-metroo/internal/config"
	"github.com/postalsys/muti-metroo/internal/health"
	"github.com/postalsys/muti-metroo/internal/protocol"
	"github.com/postalsys/muti-metroo/internal/transport"
	"github.com/postalsys/muti-metroo/internal/verifhook"
	"github.com/postalsys/muti-metroo/internal/verifkit"
)

const c18mWatchdog = 30 * time.Second // only ever => inconclusive

// ---- loopback server: reads to EOF, then writes a reply, then closes

type c18mConn struct {
	mu    sync.Mutex
	got   []byte
	eof   bool
	reply []byte
	done  chan struct{}
}

type c18mServer struct {
	l     net.Listener
	Port  int
	mu    sync.Mutex
	conns map[string]*c18mConn // by first 8 bytes (tag) the client sends
	nconn atomic.Int64
}

func newC18mServer() (*c18mServer, error) {
	l, err := net.Listen("tcp4", "127.0.0.1:0")
	if err != nil {
		return nil, err
	}
	s := &c18mServer{l: l, Port: l.Addr().(*net.TCPAddr).Port, conns: map[string]*c18mConn{}}
	go func() {
		for {
			c, err := l.Accept()
			if err != nil {
				return
			}
			s.nconn.Add(1)
			go func() {
				defer c.Close()
				tag := make([]byte, 8)
				if _, err := io.ReadFull(c, tag); err != nil {
					return
				}
				cc := s.get(string(tag))
				defer close(cc.done)
				buf := make([]byte, 8192)
				for {
					n, err := c.Read(buf)
					cc.mu.Lock()
					cc.got = append(cc.got, buf[:n]...)
					if err == io.EOF {
						cc.eof = true
					}
					cc.mu.Unlock()
					if err != nil {
						break
					}
				}
				cc.mu.Lock()
				reply, eof := cc.reply, cc.eof
				cc.mu.Unlock()
				if eof {
					c.Write(reply)
				}
			}()
		}
	}()
	return s, nil
}

func (s *c18mServer) get(tag string) *c18mConn {
	s.mu.Lock()
	defer s.mu.Unlock()
	c := s.conns[tag]
	if c == nil {
		c = &c18mConn{done: make(chan struct{})}
		s.conns[tag] = c
	}
	return c
}

func (s *c18mServer) forget(tag string) { s.mu.Lock(); delete(s.conns, tag); s.mu.Unlock() }

func c18mWait(ch <-chan struct{}) bool {
	t := time.NewTimer(c18mWatchdog)
	defer t.Stop()
	select {
	case <-ch:
		return true
	case <-t.C:
		return false
	}
}

// ---- mesh

type c18mMesh struct {
	A, B, C *Agent
	dirC    string
}

func c18mFreeUDP(n int) ([]string, error) {
	var out []string
	var cs []*net.UDPConn
	for i := 0; i < n; i++ {
		c, err := net.ListenUDP("udp", &net.UDPAddr{IP: net.IPv4(127, 0, 0, 1)})
		if err != nil {
			return nil, err
		}
		cs = append(cs, c)
		out = append(out, c.LocalAddr().String())
	}
	for _, c := range cs {
		c.Close()
	}
	return out, nil
}

func c18mBuild(root string) (*c18mMesh, error) {
	addrs, err := c18mFreeUDP(3)
	if err != nil {
		return nil, err
	}
	m := &c18mMesh{}
	var agents [3]*Agent
	for i := 2; i >= 0; i-- {
		dir := filepath.Join(root, fmt.Sprintf("agent%d", i))
		if err := os.MkdirAll(dir, 0o755); err != nil {
			return nil, err
		}
		certPEM, keyPEM, err := transport.GenerateSelfSignedCert(fmt.Sprintf("agent-%d", i), 24*time.Hour)
		if err != nil {
			return nil, err
		}
		cf, kf := filepath.Join(dir, "cert.pem"), filepath.Join(dir, "key.pem")
		if err := os.WriteFile(cf, certPEM, 0o600); err != nil {
			return nil, err
		}
		if err := os.WriteFile(kf, keyPEM, 0o600); err != nil {
			return nil, err
		}
		cfg := config.Default()
		cfg.Agent.DataDir = dir
		cfg.Agent.LogLevel = "error"
		cfg.Connections.IdleThreshold = 60 * time.Second
		cfg.Listeners = []config.ListenerConfig{{Transport: "quic", Address: addrs[i], TLS: config.TLSConfig{Cert: cf, Key: kf}}}
		if i < 2 {
			cfg.Peers = []config.PeerConfig{{ID: "auto", Transport: "quic", Address: addrs[i+1]}}
		}
		if i == 2 {
			cfg.Exit.Enabled = true
			cfg.Exit.Routes = []string{"127.0.0.0/8"}
			m.dirC = filepath.Join(dir, "files")
			if err := os.MkdirAll(m.dirC, 0o755); err != nil {
				return nil, err
			}
			cfg.FileTransfer.Enabled = true
			cfg.FileTransfer.AllowedPaths = []string{m.dirC}
		}
		a, err := New(cfg)
		if err != nil {
			return nil, fmt.Errorf("agent %d: %w", i, err)
		}
		if err := a.Start(); err != nil {
			return nil, fmt.Errorf("start agent %d: %w", i, err)
		}
		agents[i] = a
	}
	m.A, m.B, m.C = agents[0], agents[1], agents[2]
	return m, nil
}

func (m *c18mMesh) stop() bool {
	ok := true
	for _, a := range []*Agent{m.A, m.B, m.C} {
		if a == nil {
			continue
		}
		ctx, cancel := context.WithTimeout(context.Background(), c18mWatchdog)
		if err := a.StopWithContext(ctx); err != nil {
			ok = false
		}
		cancel()
	}
	return ok
}

// converged: A has a mesh route to 127.0.0.1 originated by C and a path to agent C.
func (m *c18mMesh) converged() bool {
	deadline := time.Now().Add(c18mWatchdog)
	for time.Now().Before(deadline) {
		rt := m.A.routeMgr.Lookup(net.IPv4(127, 0, 0, 1))
		_, _, _, err := m.A.findPathToAgent(m.C.ID())
		if rt != nil && rt.OriginAgent == m.C.ID() && m.A.peerMgr.GetPeer(rt.NextHop) != nil && err == nil {
			return true
		}
		time.Sleep(20 * time.Millisecond)
	}
	return false
}

func TestVerif_C18Mesh(t *testing.T) {
	r := verifkit.Start(t, "C18", "mesh")
	r.Rule("one real 3-agent chain (ingress A, relay B, exit C) over loopback QUIC; conn: PRNG write/CloseWrite/write-again/read-to-EOF histories on A.Dial connections to a loopback TCP server, a sibling connection closed midway; " +
		"finerr: downloads of paths outside C's allowed paths, answered by C with error metadata carried by the FIN frame while A is blocked in Read; non-trivial = case whose half-close (conn) or FIN+data frame (finerr) was observed end to end; distinct by (kind, sizes)")
	r.Assume("mesh convergence is awaited by polling (never judged); the hook only widens the window between the two halves of a FIN+data frame")

	srv, err := newC18mServer()
	if err != nil {
		r.Inconclusive("cannot open loopback listener: " + err.Error())
		return
	}
	defer srv.l.Close()
	mesh, err := c18mBuild(t.TempDir())
	if err != nil {
		r.Inconclusive("cannot build the 3-agent mesh: " + err.Error())
		if mesh != nil {
			mesh.stop()
		}
		return
	}
	defer func() {
		if !mesh.stop() {
			r.Inconclusive("an agent did not stop within the watchdog")
		}
	}()
	if !mesh.converged() {
		r.Inconclusive("mesh did not converge (no route from A to C within the watchdog)")
		return
	}

	// widen the window of a FIN frame that carries data (no effect on a correct tree)
	var hookHits atomic.Int64
	restore := verifhook.Set("stream.fin_before_push", func(args ...any) {
		if len(args) < 3 {
			return
		}
		flags, ok1 := args[1].(uint8)
		n, ok2 := args[2].(int)
		if ok1 && ok2 && flags&protocol.FlagFinWrite != 0 && n > 0 {
			hookHits.Add(1)
			time.Sleep(2 * time.Millisecond)
		}
	})
	defer restore()

	// ---------------------------------------------------------------- conn
	nconn := r.N(60, 1200)
	r.Cases("conn", nconn, func(ci int, rng *verifkit.Rand) {
		tag := fmt.Sprintf("%08x", uint32(rng.U64()))
		sc := srv.get(tag)
		sc.mu.Lock()
		sc.reply = rng.Bytes(1 + rng.Intn(40000))
		sc.mu.Unlock()
		defer srv.forget(tag)
		addr := fmt.Sprintf("127.0.0.1:%d", srv.Port)
		ctx, cancel := context.WithTimeout(context.Background(), c18mWatchdog)
		defer cancel()
		c, err := mesh.A.DialContext(ctx, "tcp", addr)
		if err != nil {
			r.Inconclusive("A.Dial through the mesh failed: " + err.Error())
			return
		}
		mc, isMesh := c.(*meshConn)
		if !isMesh {
			c.Close()
			r.Inconclusive("A.Dial fell back to a direct connection (no mesh route)")
			return
		}
		defer mc.Close()
		// a sibling connection that will be closed in the middle
		var sib net.Conn
		sibTag := ""
		if rng.Chance(2, 3) {
			sibTag = fmt.Sprintf("%08x", uint32(rng.U64()))
			srv.get(sibTag)
			defer srv.forget(sibTag)
			if s2, err := mesh.A.DialContext(ctx, "tcp", addr); err == nil {
				sib = s2
				sib.Write([]byte(sibTag))
				sib.Write(rng.Bytes(1 + rng.Intn(2000)))
			}
		}
		sent := []byte{}
		sizes := []int{}
		if _, err := mc.Write([]byte(tag)); err != nil {
			r.Inconclusive("write on a fresh mesh connection failed: " + err.Error())
			return
		}
		nw := 1 + rng.Intn(4)
		for k := 0; k < nw; k++ {
			p := rng.Bytes(1 + rng.Intn(30000))
			if k == nw/2 && sib != nil {
				if rng.Bool() {
					sib.Close()
				} else if s2, ok := sib.(*meshConn); ok {
					// reset the sibling from the far side: the server side closing is what C turns into FIN+CLOSE
					s2.Close()
				}
				r.Add("sibling_closed_midway", 1)
				sib = nil
			}
			n, err := mc.Write(p)
			if err != nil || n != len(p) {
				r.Violation("mesh:isolation:write-failed-on-open-connection", "conn", ci, fmt.Sprintf("write %d of %d failed on an open connection (n=%d err=%v)", k, nw, n, err), nil)
				return
			}
			sent = append(sent, p...)
			sizes = append(sizes, len(p))
		}
		if err := mc.CloseWrite(); err != nil {
			r.Inconclusive("CloseWrite failed: " + err.Error())
			return
		}
		r.Add("local_halfclose", 1)
		// further writes are refused
		if n, err := mc.Write([]byte("after-fin")); err == nil {
			r.Violation("halfclose-local:write-not-refused", "conn", ci, fmt.Sprintf("Write after CloseWrite accepted %d bytes", n), nil)
		} else {
			r.Add("write_after_halfclose_refused", 1)
		}
		// reads continue: the server's reply (written after it saw our EOF) must arrive in full
		var back []byte
		mc.SetReadDeadline(time.Now().Add(c18mWatchdog))
		buf := make([]byte, 16384)
		var rerr error
		for {
			n, err := mc.Read(buf)
			back = append(back, buf[:n]...)
			if err != nil {
				rerr = err
				break
			}
		}
		if errors.Is(rerr, context.DeadlineExceeded) {
			r.Inconclusive("no end-of-stream on the mesh connection within the watchdog")
			return
		}
		if !c18mWait(sc.done) {
			r.Inconclusive("server connection never finished (watchdog)")
			return
		}
		sc.mu.Lock()
		got, eof := append([]byte(nil), sc.got...), sc.eof
		sc.mu.Unlock()
		w := map[string]any{"writes": sizes, "reply": len(sc.reply), "server_got": len(got), "server_eof": eof, "client_got": len(back), "client_err": fmt.Sprint(rerr)}
		ok := true
		if !bytes.Equal(got, sent) || !eof {
			ok = false
			if bytes.HasPrefix(sent, got) {
				r.Violation("mesh:fin:eof-before-data:server-side", "conn", ci, fmt.Sprintf("server saw end of stream after %d of %d bytes written before CloseWrite (clean EOF: %v)", len(got), len(sent), eof), w)
			} else {
				r.Violation("mesh:data-mismatch", "conn", ci, "server received bytes that were not sent", w)
			}
		}
		if eof && !bytes.Equal(back, sc.reply) {
			ok = false
			if bytes.HasPrefix(sc.reply, back) {
				r.Violation("halfclose-local:read-truncated", "conn", ci, fmt.Sprintf("after the local half-close only %d of the %d bytes the server wrote arrived before end-of-stream (%v)", len(back), len(sc.reply), rerr), w)
			} else {
				r.Violation("mesh:data-mismatch", "conn", ci, "client received bytes the server did not write", w)
			}
		}
		if ok {
			r.Add("conn_halfclose_roundtrips", 1)
		}
		r.Eval(fmt.Sprintf("conn|%v|%d|%v", sizes, len(sc.reply), sibTag != ""), ok)
		if ok && ci == 0 {
			r.Sample(map[string]any{"phase": "conn", "case": w})
		}
	})

	// ---------------------------------------------------------------- finerr
	nfe := r.N(150, 3000)
	var sampled bool
	r.Cases("finerr", nfe, func(ci int, rng *verifkit.Rand) {
		// a path outside C's allowed directory; vary its length so that the error metadata varies
		outside := "/" + strings.Repeat("x", 1+rng.Intn(60)) + "/" + rng.Token(1+rng.Intn(20))
		before := hookHits.Load()
		ctx, cancel := context.WithTimeout(context.Background(), c18mWatchdog)
		defer cancel()
		res, err := mesh.A.DownloadFileStream(ctx, mesh.C.ID(), outside, health.TransferOptions{})
		if err == nil {
			if res != nil && res.Close != nil {
				res.Close()
			}
			r.Inconclusive("download of a path outside the allowed paths was not refused (not this property's business)")
			return
		}
		hooked := hookHits.Load() > before
		msg := err.Error()
		w := map[string]any{"path_len": len(outside), "error": msg, "hook_reached": hooked}
		switch {
		case strings.Contains(msg, "remote error"):
			r.Add("finerr_error_text_delivered", 1)
			r.Add("fin_with_data_frames", 1)
			r.Eval(fmt.Sprintf("finerr|%d", len(outside)), true)
			if !sampled {
				sampled = true
				r.Sample(map[string]any{"phase": "finerr", "case": w})
			}
		case strings.Contains(msg, "read response metadata") && strings.Contains(msg, "EOF"):
			r.Add("fin_with_data_frames", 1)
			r.Eval(fmt.Sprintf("finerr|%d", len(outside)), true)
			r.Violation("fin-with-data:eof-before-data:blocked-reader", "finerr", ci,
				"C answered a refused download with its error text in a FIN-flagged frame; A, blocked in Read, got end-of-stream instead of that text: "+msg, w)
		default:
			r.Inconclusive("download refused with an unexpected error: " + msg)
		}
	})
	r.Set("hook_hits", hookHits.Load())
	if hookHits.Load() == 0 {
		r.Inconclusive("hook not reached: stream.fin_before_push (call site from proposed/C18/hook.diff is not in this tree); finerr phase ran without the widened window")
	}
	r.Require("conn_halfclose_roundtrips", 30)
	r.Require("write_after_halfclose_refused", 30)
	r.Require("fin_with_data_frames", 100)
}
