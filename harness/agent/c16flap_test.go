package agent

// Link-flap histories (shared by C16 and C17).
//
// In a plain chain every per-connection stream-id allocator advances in lockstep, so a tunnel
// has the same id on every hop and an index that is maintained under the wrong id (or not
// cleaned on a peer disconnect) goes unnoticed. A link that drops and comes back restarts the
// id space of that one connection: afterwards the tunnels through it have DIFFERENT ids on
// their two sides, and the ids of the new connection repeat those of the tunnels that died
// with the old one. Neither is a stream-id collision in the sense of the known finding (no two
// live tunnels share an id on two connections of one agent; mkCollisions confirms it per run).
//
//   stage 1  a few tunnels complete; some more are opened and HELD open by their clients
//   flap     one link of the chain is closed; the dialler reconnects; routes come back
//   stage 2  new tunnels run (byte-exact oracle), while the clients of the held — now dead —
//            tunnels write to them and close them
//   C17 only a link is closed while stage-2 tunnels are live; then everything must drain to zero

import (
	"fmt"
	"io"
	"net"
	"os"
	"sync"
	"testing"
	"time"

	"github.com/postalsys/muti-metroo/internal/config"
	"github.com/postalsys/muti-metroo/internal/identity"
	"github.com/postalsys/muti-metroo/internal/verifkit"
)

// mkReuseAtEndpoint: tunnels whose stream id on some hop (sender, receiver, id) is also used by
// another tunnel on the same hop — possible only on two successive connections between the two
// agents, because one connection never hands an id out twice — where the sender is the ingress or
// the receiver is the exit of one of the two tunnels. Ingress stream tables and exit / forward
// connection tables are keyed by the bare stream id and are not cleaned when the peer
// disconnects, so the dead tunnel's entry aliases the new tunnel (recorded finding). Re-use
// between two pure transits is NOT in this class: relay entries are removed on disconnect.
func mkReuseAtEndpoint(traces map[[32]byte]*mkTunnelTrace) map[[32]byte]bool {
	type hk struct {
		s, r identity.AgentID
		id   uint64
		fam  uint8
	}
	type use struct {
		eph      [32]byte
		endpoint bool
	}
	uses := map[hk][]use{}
	for _, tr := range traces {
		senders := map[identity.AgentID]bool{}
		receivers := map[identity.AgentID]bool{}
		for _, h := range tr.Hops {
			senders[h.Sender] = true
			receivers[h.Receiver] = true
		}
		for _, h := range tr.Hops {
			k := hk{h.Sender, h.Receiver, h.ID, tr.Kind & 0xf0}
			uses[k] = append(uses[k], use{tr.Eph, !senders[h.Receiver] || !receivers[h.Sender]})
		}
	}
	out := map[[32]byte]bool{}
	for _, us := range uses {
		for i := range us {
			for j := range us {
				if us[i].eph != us[j].eph && (us[i].endpoint || us[j].endpoint) {
					out[us[i].eph] = true
				}
			}
		}
	}
	return out
}

type c16FlapOut struct {
	Topo      string         `json:"topology"`
	FlapEdge  [2]int         `json:"flap_edge"`
	Closer    int            `json:"closed_by_node"`
	Done1     int            `json:"stage1_completed_tunnels"`
	Held      int            `json:"stage1_held_tunnels"`
	Stage2    []mkTunnelPlan `json:"stage2_plans"`
	DivergentIDs int         `json:"stage2_tunnels_with_different_ids_on_two_hops"`
	Collisions int           `json:"collisions"`
	Reuse      int           `json:"tunnels_whose_id_is_reused_on_a_reestablished_connection_at_an_endpoint"`
	Frames    int64          `json:"frames_tapped"`
	PeakBook  int64          `json:"peak_entries_seen"`
	LiveKills [][2]int       `json:"links_closed_while_tunnels_live,omitempty"`
	Sleeper   string         `json:"transit_that_slept_and_woke,omitempty"`
	BusyAtSleep bool         `json:"transfers_in_flight_when_it_went_to_sleep,omitempty"`
	IdleAtKill int           `json:"idle_tunnels_open_at_kill,omitempty"`
}

// c16FlapScenario runs one link-flap history. judgeData: apply the byte-exactness oracle to the
// stage-2 tunnels (C16). killLive: close a link while a last wave of tunnels is live (C17).
// The mesh is returned running (the caller settles / stops it).
func c16FlapScenario(t testing.TB, r *verifkit.R, phase string, ci int, rng *verifkit.Rand, idle time.Duration, judgeData, killLive bool) (*c16FlapOut, *mkMesh, func()) {
	byName := map[string]c16Topo{}
	for _, x := range c16Topologies() {
		byName[x.Name] = x
	}
	byName["chain5"] = c16Topo{Name: "chain5", Spec: mkChain(5), Ingresses: []int{0}, Exits: map[int]int{4: 1}}
	tp := byName[[]string{"chain4", "chain3", "chain5"}[ci%3]]
	exitNode := len(tp.Spec.Names) - 1
	dest, err := mkStartDest()
	if err != nil {
		r.Inconclusive("cannot start destination server: " + err.Error())
		return nil, nil, nil
	}
	tap := mkInstallTap()
	// every fourth history the flap is a transit's sleep/wake cycle; on chain5 it is the middle
	// transit (both neighbours are transits too), elsewhere the transit next to the ingress
	sleeper := -1
	if ci%4 == 3 {
		sleeper = 1
		if (ci/4)%2 == 0 {
			tp = byName["chain5"]
			exitNode = len(tp.Spec.Names) - 1
			sleeper = 2
		}
	}
	c16ExtraCfg = func(i int, c *config.Config) {
		if i == sleeper {
			c.Sleep.Enabled = true
			c.Sleep.PollInterval = time.Hour
			c.Sleep.PersistState = false
		}
	}
	m, err := c16BuildMesh(t, tp, dest, idle)
	c16ExtraCfg = nil
	if err != nil {
		tap.close()
		dest.close()
		r.Inconclusive(fmt.Sprintf("%s: mesh did not come up: %v", tp.Name, err))
		return nil, nil, nil
	}
	cleanup := func() { tap.close(); dest.close() }
	out := &c16FlapOut{Topo: tp.Name}
	base := uint64(ci)<<20 | 0x8000
	destOf := func(i int) string {
		return fmt.Sprintf("127.%d.%d.%d:%d", tp.Exits[exitNode], 1+rng.Intn(200), 1+i%250, dest.port)
	}
	fail := func(msg string) (*c16FlapOut, *mkMesh, func()) {
		r.Inconclusive(fmt.Sprintf("flap %s/%d: %s", tp.Name, ci, msg))
		m.stop()
		cleanup()
		return nil, nil, nil
	}

	// ---- stage 1
	out.Done1 = rng.Intn(3)
	for i := 0; i < out.Done1; i++ {
		p := mkTunnelPlan{ID: base + uint64(i) + 1, Ingress: 0, Via: "tcp", Dest: destOf(i), C2S: int64(rng.Intn(5000)), S2C: int64(rng.Intn(5000)), Mode: mkModeOrderly, Chunk: 1024}
		cs := mkRunTunnel(m, p, 20*time.Second)
		if judgeData {
			if syms, _ := c16Judge(cs, dest.side(p.ID), -1); len(syms) > 0 {
				r.Violation("clean:"+syms[0], phase, ci, fmt.Sprintf("flap history, %s: a sequential tunnel before the flap failed: %v (dial=%q werr=%q rerr=%q)", tp.Name, syms, cs.DialErr, cs.WriteErr, cs.ReadErr), map[string]any{"plan": p})
			}
		}
	}
	nHeld := 2 + rng.Intn(3)
	var held []*mkHeld
	for i := 0; i < nHeld; i++ {
		p := mkTunnelPlan{ID: base + 0x100 + uint64(i), Ingress: 0, Via: "tcp", Dest: destOf(10 + i), C2S: 1 << 20, S2C: int64(100 + rng.Intn(3000)), Mode: mkModeOrderly}
		h, err := mkOpenHeld(m, p)
		if err != nil {
			if judgeData {
				r.Violation("clean:open-failed", phase, ci, fmt.Sprintf("flap history, %s: tunnel %d before the flap could not be opened/read: %v", tp.Name, i, err), map[string]any{"plan": p})
			}
			continue
		}
		held = append(held, h)
	}
	out.Held = len(held)

	// ---- flap: one link is lost (keepalive timeout on one side), or — every fourth history — a
	// transit goes to sleep and wakes up again (sleep mode closes all its connections and
	// listeners; waking re-dials and re-listens), with live traffic on it in half of those
	e := tp.Spec.Edges[rng.Intn(len(tp.Spec.Edges))]
	if len(tp.Spec.Edges) >= 3 && ci%3 != 1 {
		// a link between two pure transits (no endpoint of any tunnel holds state for it)
		e = tp.Spec.Edges[1+rng.Intn(len(tp.Spec.Edges)-2)]
	}
	closer := e[rng.Intn(2)]
	other := e[0] + e[1] - closer
	flapped := [][2]int{e}
	if sleeper >= 0 {
		flapped = [][2]int{{sleeper - 1, sleeper}, {sleeper, sleeper + 1}}
		e, closer = flapped[0], sleeper
		out.Sleeper = m.nodes[sleeper].name
	}
	out.FlapEdge, out.Closer = e, closer
	type pair struct{ a, b any }
	old := make([]pair, len(flapped))
	for i, fe := range flapped {
		old[i] = pair{m.nodes[fe[0]].a.peerMgr.GetPeer(m.nodes[fe[1]].a.ID()), m.nodes[fe[1]].a.peerMgr.GetPeer(m.nodes[fe[0]].a.ID())}
	}
	if sleeper >= 0 {
		S := m.nodes[sleeper].a
		var busy sync.WaitGroup
		if rng.Chance(1, 2) {
			// traffic in flight through the transit while it goes to sleep
			for i := 0; i < 2; i++ {
				p := mkTunnelPlan{ID: base + 0x180 + uint64(i), Ingress: 0, Via: "tcp", Dest: destOf(20 + i), C2S: 3 << 20, S2C: 3 << 20, Mode: mkModeOrderly, Chunk: 16384}
				busy.Add(1)
				go func() { defer busy.Done(); mkRunTunnel(m, p, 4*time.Second) }()
			}
			time.Sleep(time.Duration(20+rng.Intn(60)) * time.Millisecond)
			out.BusyAtSleep = true
		}
		if err := S.sleepMgr.Sleep(); err != nil {
			return fail("transit could not enter sleep mode: " + err.Error())
		}
		time.Sleep(time.Duration(100+rng.Intn(400)) * time.Millisecond)
		if err := S.sleepMgr.Wake(); err != nil {
			return fail("transit could not wake: " + err.Error())
		}
		busy.Wait()
	} else if !mkKillLink(m.nodes[closer].a, m.nodes[other].a.ID()) {
		return fail("link to flap was not up")
	}
	deadline := time.Now().Add(40 * time.Second)
	for {
		up := true
		for i, fe := range flapped {
			na := m.nodes[fe[0]].a.peerMgr.GetPeer(m.nodes[fe[1]].a.ID())
			nb := m.nodes[fe[1]].a.peerMgr.GetPeer(m.nodes[fe[0]].a.ID())
			if na == nil || nb == nil || any(na) == old[i].a || any(nb) == old[i].b {
				up = false
			}
		}
		if up {
			break
		}
		if time.Now().After(deadline) {
			return fail("the lost link(s) were not re-established within 40 s")
		}
		time.Sleep(20 * time.Millisecond)
	}
	if err := m.waitRoute(0, fmt.Sprintf("127.%d.0.1", tp.Exits[exitNode]), exitNode, 40*time.Second); err != nil {
		return fail("route did not come back after the flap: " + err.Error())
	}
	// probe (not judged): the first tunnel after a flap may still meet a route that is being
	// re-announced; retry until one tunnel works end to end.
	probeOK := false
	for k := 0; k < 40 && !probeOK; k++ {
		p := mkTunnelPlan{ID: base + 0x200 + uint64(k), Ingress: 0, Via: "tcp", Dest: destOf(30 + k), C2S: 10, S2C: 10, Mode: mkModeOrderly}
		cs := mkRunTunnel(m, p, 5*time.Second)
		probeOK = cs.DialErr == "" && cs.Meshed && cs.Got == 10 && cs.SawEOF
		if !probeOK {
			time.Sleep(250 * time.Millisecond)
		}
	}
	if !probeOK {
		if judgeData {
			r.Violation("clean:no-tunnel-works-after-link-flap", phase, ci, fmt.Sprintf("flap history, %s: link %v was closed by node %d and re-established, the route came back, but 40 sequential 10-byte tunnels over 10+ s all failed", tp.Name, e, closer), map[string]any{"flap": out})
		}
		return out, m, cleanup
	}

	// ---- stage 2: new tunnels, with the dead tunnels' owners writing / closing meanwhile
	mon := make(chan struct{})
	var monWG sync.WaitGroup
	monWG.Add(1)
	go func() {
		defer monWG.Done()
		for {
			select {
			case <-mon:
				return
			default:
			}
			var tot int64
			for _, n := range m.nodes {
				b := mkBookOf(n.a)
				tot += int64(b.RelayUp+b.RelayDown+b.Streams+b.Pending) + b.ExitConns
			}
			if tot > out.PeakBook {
				out.PeakBook = tot
			}
			time.Sleep(2 * time.Millisecond)
		}
	}()
	wave := func(tag uint64, n int, disturb func()) []*mkClientSide {
		plans := make([]mkTunnelPlan, n)
		for i := range plans {
			plans[i] = mkTunnelPlan{ID: base + tag + uint64(i), Ingress: 0, Via: "tcp", Dest: destOf(60 + i), C2S: int64(20000 + rng.Intn(300000)), S2C: int64(20000 + rng.Intn(300000)),
				Mode: mkModeOrderly, Chunk: []int{512, 4096, 16384}[rng.Intn(3)]}
		}
		out.Stage2 = append(out.Stage2, plans...)
		res := make([]*mkClientSide, n)
		var wg sync.WaitGroup
		for i := range plans {
			wg.Add(1)
			go func(i int) {
				defer wg.Done()
				res[i] = mkRunTunnel(m, plans[i], 20*time.Second)
			}(i)
		}
		if disturb != nil {
			wg.Add(1)
			go func() { defer wg.Done(); disturb() }()
		}
		wg.Wait()
		return res
	}
	pokeDelay := time.Duration(5+rng.Intn(40)) * time.Millisecond
	closeToo := rng.Chance(2, 3)
	var all []*mkClientSide
	all = append(all, wave(0x300, 2+rng.Intn(4), func() {
		time.Sleep(pokeDelay)
		for _, h := range held {
			h.poke(200 + rng.Intn(3000))
		}
		if closeToo {
			time.Sleep(pokeDelay)
			for _, h := range held {
				h.close()
			}
		}
	})...)
	for _, h := range held {
		h.close()
	}
	all = append(all, wave(0x400, 2+rng.Intn(3), nil)...)

	if killLive {
		// last wave: tunnels that are alive when links are closed. Either one link, or both links
		// of one transit in quick succession (so the transit loses the upstream AND the downstream
		// peer of its relays before any close from a tunnel's owner can reach it).
		tr := 1 + rng.Intn(len(tp.Spec.Names)-2)
		var kills [][2]int // {closing node, peer node}
		switch rng.Intn(3) {
		case 0:
			e2 := tp.Spec.Edges[rng.Intn(len(tp.Spec.Edges))]
			side := e2[rng.Intn(2)]
			kills = [][2]int{{side, e2[0] + e2[1] - side}}
		case 1:
			kills = [][2]int{{tr, tr + 1}, {tr, tr - 1}}
		default:
			kills = [][2]int{{tr, tr - 1}, {tr, tr + 1}}
		}
		if rng.Chance(1, 2) { // the far side closes instead of the transit
			for i := range kills {
				kills[i][0], kills[i][1] = kills[i][1], kills[i][0]
			}
		}
		out.LiveKills = kills
		plans := make([]mkTunnelPlan, 1+rng.Intn(3))
		for i := range plans {
			plans[i] = mkTunnelPlan{ID: base + 0x500 + uint64(i), Ingress: 0, Via: "tcp", Dest: destOf(90 + i), C2S: int64(200000 + rng.Intn(300000)), S2C: int64(2000000 + rng.Intn(2000000)),
				Mode: mkModeOrderly, Chunk: 4096, ReaderStallMs: 400}
		}
		out.Stage2 = append(out.Stage2, plans...)
		// ... plus tunnels that are open but idle, whose clients close them right after the
		// links died (their STREAM_CLOSE can no longer reach the transit: whatever the transit
		// recorded for them must go with the peer disconnect, nothing else will remove it)
		var idle []*mkHeld
		for i := 0; i < 2+rng.Intn(3); i++ {
			p := mkTunnelPlan{ID: base + 0x600 + uint64(i), Ingress: 0, Via: "tcp", Dest: destOf(120 + i), C2S: 1 << 20, S2C: int64(100 + rng.Intn(2000)), Mode: mkModeOrderly}
			if h, err := mkOpenHeld(m, p); err == nil {
				idle = append(idle, h)
			}
		}
		out.IdleAtKill = len(idle)
		var wg sync.WaitGroup
		for i := range plans {
			wg.Add(1)
			go func(i int) {
				defer wg.Done()
				mkRunTunnel(m, plans[i], 4*time.Second)
			}(i)
		}
		time.Sleep(time.Duration(60+rng.Intn(120)) * time.Millisecond)
		for _, k := range kills {
			mkKillLink(m.nodes[k[0]].a, m.nodes[k[1]].a.ID())
		}
		for _, h := range idle {
			h.close()
		}
		wg.Wait()
	}
	close(mon)
	monWG.Wait()

	// server sides
	dl := time.Now().Add(10 * time.Second)
	for time.Now().Before(dl) {
		pending := false
		for _, cs := range all {
			if s := dest.side(cs.Plan.ID); s != nil && !s.Done {
				pending = true
			}
		}
		if !pending {
			break
		}
		time.Sleep(10 * time.Millisecond)
	}
	traces := mkTraceTunnels(tap.snapshot())
	coll := mkCollisions(traces)
	out.Collisions = len(coll)
	reuse := mkReuseAtEndpoint(traces)
	out.Reuse = len(reuse)
	out.Frames = tap.nFrames.Load()
	for _, tr := range traces {
		ids := map[uint64]bool{}
		for _, h := range tr.Hops {
			ids[h.ID] = true
		}
		if len(ids) > 1 {
			out.DivergentIDs++
		}
	}
	if judgeData {
		for _, cs := range all {
			syms, inc := c16Judge(cs, dest.side(cs.Plan.ID), -1)
			if inc != "" {
				r.Inconclusive(fmt.Sprintf("flap %s tunnel %d: %s", tp.Name, cs.Plan.ID, inc))
			}
			for _, s := range syms {
				key := "clean:" + s
				if len(reuse) > 0 {
					key = "reuse:tunnel-disturbed"
				}
				if len(coll) > 0 {
					key = "collision:tunnel-disturbed"
				}
				srv := int64(-1)
				if ss := dest.side(cs.Plan.ID); ss != nil {
					srv = ss.Got
				}
				r.Violation(key, phase, ci, fmt.Sprintf("symptom %s after a link flap; topology %s, link %v closed by node %d and re-established; %d tunnels were held open across the flap and their clients wrote to / closed them while the new tunnels ran; "+
					"new tunnel %d: c2s=%d/%d s2c=%d/%d dial=%q werr=%q rerr=%q eof=%v; id-sharing tunnels computed from the tap: %d; tunnels whose stream id was re-used on the re-established connection next to an ingress/exit: %d",
					s, tp.Name, e, closer, out.Held, cs.Plan.ID, srv, cs.Plan.C2S, cs.Got, cs.Plan.S2C, cs.DialErr, cs.WriteErr, cs.ReadErr, cs.SawEOF, len(coll), len(reuse)), map[string]any{"flap": out})
			}
		}
		dest.mu.Lock()
		bogus := append([]string(nil), dest.bogus...)
		dest.mu.Unlock()
		for _, b := range bogus {
			if len(b) >= 7 && b[:7] == "err=EOF" {
				continue // a tunnel cut by the flap before its header arrived
			}
			r.Violation("clean:destination-got-foreign-bytes", phase, ci, fmt.Sprintf("flap history %s: destination saw a connection that did not start with a tunnel header: %s", tp.Name, b), map[string]any{"flap": out})
		}
	}
	_ = io.EOF
	_ = net.IPv4len
	return out, m, cleanup
}

func TestVerif_C16_Flap(t *testing.T) {
	r := verifkit.Start(t, "C16", "mesh-flap")
	if !mkHooksPresent() {
		r.Inconclusive("frame tap hooks not compiled in (build tag verif)")
		return
	}
	r.Rule("scenario = chain topology x PRNG link-flap history: tunnels completed and tunnels held open before one link is closed and re-established; afterwards new concurrent tunnels run " +
		"while the clients of the dead tunnels write to and close them; every new tunnel's two byte streams are verified byte-by-byte at both application ends and must complete; " +
		"non-trivial = history in which at least one new tunnel had different stream ids on two of its hops (computed from the frame tap) and tunnels were held across the flap; distinct by (topology, flap edge, plans)")
	r.Cases("flap", r.N(8, 64), func(ci int, rng *verifkit.Rand) {
		out, m, cleanup := c16FlapScenario(t, r, "flap", ci, rng, 30*time.Second, true, false)
		if out == nil {
			return
		}
		hung := m.stop()
		cleanup()
		if len(hung) > 0 {
			r.Add("agents_stop_watchdog", len(hung))
			fmt.Fprintf(os.Stderr, "c16flap %d: agents whose Stop hit the watchdog: %v (sleeper=%q)\n", ci, hung, out.Sleeper)
		}
		r.Add("flap_histories", 1)
		if out.Sleeper != "" {
			r.Add("flap_histories_transit_sleep_wake", 1)
		}
		r.Add("tunnels_held_across_flap", out.Held)
		r.Add("stage2_tunnels", len(out.Stage2))
		r.Add("stage2_tunnels_with_divergent_ids", out.DivergentIDs)
		r.Add("id_collisions_computed", out.Collisions)
		r.Add("frames_tapped", int(out.Frames))
		if out.Reuse > 0 {
			r.Add("histories_reuse_at_endpoint", 1)
		} else {
			r.Add("histories_transit_only_flap", 1)
		}
		r.Eval(fmt.Sprintf("%s/%v/%d/%v", out.Topo, out.FlapEdge, out.Closer, out.Stage2), out.DivergentIDs > 0 && out.Held > 0)
		if r.NeedSample() {
			s := *out
			if len(s.Stage2) > 3 {
				s.Stage2 = s.Stage2[:3]
			}
			r.Sample(s)
		}
	})
	r.Require("stage2_tunnels_with_divergent_ids", 4)
	r.Require("tunnels_held_across_flap", 4)
	r.Require("histories_transit_only_flap", 2)
}

func TestVerif_C17_Flap(t *testing.T) {
	r := verifkit.Start(t, "C17", "mesh-flap")
	if !mkHooksPresent() {
		r.Inconclusive("frame tap hooks not compiled in (build tag verif)")
		return
	}
	r.Rule("scenario = chain topology x PRNG link-flap history (tunnels held across a link that is closed and re-established, new tunnels whose stream ids differ between their hops, " +
		"dead tunnels written to / closed by their owners, finally a link closed while tunnels are live); after all application ends finished every agent's bookkeeping is sampled until all-zero; " +
		"non-trivial = history with >= 1 tunnel whose ids differ between hops and bookkeeping observed non-zero before settling; distinct by (topology, flap edge, plans)")
	r.Assume("idle-timeout driven cleanup is given 3 x connections.idle_threshold (3 s) of unchanged bookkeeping before stable non-zero is judged")
	r.Cases("flap", r.N(4, 40), func(ci int, rng *verifkit.Rand) {
		out, m, cleanup := c16FlapScenario(t, r, "flap", ci, rng, 3*time.Second, false, true)
		if out == nil {
			return
		}
		last, zero, unchanged, samples := c17Settle(m, 40*time.Second, 9*time.Second)
		r.Add("bookkeeping_samples", samples)
		r.Add("flap_histories", 1)
		if out.Sleeper != "" {
			r.Add("flap_histories_transit_sleep_wake", 1)
		}
		r.Add("tunnels_held_across_flap", out.Held)
		r.Add("stage2_tunnels_with_divergent_ids", out.DivergentIDs)
		r.Add("peak_entries_seen", int(out.PeakBook))
		if out.Reuse > 0 {
			r.Add("histories_reuse_at_endpoint", 1)
		} else {
			r.Add("histories_transit_only_flap", 1)
		}
		if !zero {
			if unchanged < 9*time.Second {
				r.Inconclusive(fmt.Sprintf("flap %s: bookkeeping still changing when the settle watchdog fired: %+v", out.Topo, last))
			} else {
				desc := ""
				syms := map[string]bool{}
				for i, b := range last {
					if b.zero() {
						continue
					}
					desc += fmt.Sprintf("%s:%+v ", m.nodes[i].name, b)
					if b.RelayUp != 0 || b.RelayDown != 0 {
						syms["relay-entries-remain"] = true
					}
					if b.RelayUp != b.RelayDown {
						syms["relay-indices-disagree"] = true
					}
					if b.ExitConns != 0 {
						syms["exit-connection-count-nonzero"] = true
					}
					if b.Streams != 0 || b.Pending != 0 {
						syms["stream-table-entries-remain"] = true
					}
				}
				for s := range syms {
					// relay-table symptoms are never part of the recorded re-use finding: relay entries
					// are removed on a peer disconnect whatever their ids
					key := "flap:" + s
					if out.Reuse > 0 && (s == "exit-connection-count-nonzero" || s == "stream-table-entries-remain") {
						key = "reuse:bookkeeping-leak"
					}
					if out.Collisions > 0 {
						key = "collision:bookkeeping-leak"
					}
					r.Violation(key, "flap", ci, fmt.Sprintf("symptom %s; %s, link %v closed by node %d and re-established with %d tunnels held open, then new tunnels (%d with different stream ids on their hops), then a link closed while tunnels were live; "+
						"after all application ends finished the bookkeeping stayed non-zero and unchanged for %v: %s", s, out.Topo, out.FlapEdge, out.Closer, out.Held, out.DivergentIDs, unchanged.Round(time.Second), desc),
						map[string]any{"flap": out, "books": last})
				}
			}
		}
		hung := m.stop()
		cleanup()
		if len(hung) > 0 {
			r.Add("agents_stop_watchdog", len(hung))
		}
		r.Eval(fmt.Sprintf("%s/%v/%d/%v", out.Topo, out.FlapEdge, out.Closer, out.Stage2), out.DivergentIDs > 0 && out.PeakBook > 0)
		if r.NeedSample() {
			s := *out
			if len(s.Stage2) > 3 {
				s.Stage2 = s.Stage2[:3]
			}
			r.Sample(map[string]any{"history": s, "settled_all_zero": zero})
		}
	})
	r.Require("stage2_tunnels_with_divergent_ids", 3)
	r.Require("histories_transit_only_flap", 2)
}
