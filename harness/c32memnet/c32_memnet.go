// Package c32memnet is an in-memory implementation of transport.Transport / Listener /
// PeerConn / Stream used by the C31, C32 and C38 harnesses. It is mapped into the module by
// the check driver (overlay) and never committed to /repo.
//
// Semantics are those the peer layer relies on: reliable ordered byte streams, OpenStream
// on one end surfaces as AcceptStream on the other, closing one end makes the other end's
// reads fail once buffered data is drained. Fault injection is explicit and deterministic:
// FailWrites (local writes fail, reads keep blocking), Sever (both directions fail at once).
package c32memnet

import (
	"context"
	"errors"
	"fmt"
	"io"
	"net"
	"sync"
	"sync/atomic"
	"time"

	"github.com/postalsys/muti-metroo/internal/transport"
)

var (
	ErrClosed  = errors.New("memnet: connection closed")
	ErrRefused = errors.New("memnet: connection refused")
	ErrSevered = errors.New("memnet: link severed")
)

// Net is one in-memory network: a namespace of addresses.
type Net struct {
	mu        sync.Mutex
	handlers  map[string]func(transport.PeerConn)
	listeners map[string]*Listener
	serial    atomic.Uint64
}

func New() *Net {
	return &Net{handlers: map[string]func(transport.PeerConn){}, listeners: map[string]*Listener{}}
}

// Handle registers fn as the acceptor for addr: every Dial to addr runs fn(acceptorEnd) on
// its own goroutine. fn == nil unregisters (dials are refused).
func (n *Net) Handle(addr string, fn func(transport.PeerConn)) {
	n.mu.Lock()
	if fn == nil {
		delete(n.handlers, addr)
	} else {
		n.handlers[addr] = fn
	}
	n.mu.Unlock()
}

// Transport returns a new dialing/listening endpoint on this network. name is used as the
// local address of dialed connections.
func (n *Net) Transport(name string) *Transport { return &Transport{n: n, name: name} }

type addr string

func (a addr) Network() string { return "mem" }
func (a addr) String() string  { return string(a) }

// Transport implements transport.Transport.
type Transport struct {
	n      *Net
	name   string
	closed atomic.Bool
	// DialHook, when set, runs at the start of every Dial (it may block); a non-nil error
	// fails the dial.
	DialHook func(ctx context.Context, addr string) error
	// OnDialed, when set, sees both ends of every established connection before Dial returns.
	OnDialed func(dialerEnd, acceptorEnd *Conn)
}

func (t *Transport) Type() transport.TransportType { return transport.TransportQUIC }
func (t *Transport) Close() error                  { t.closed.Store(true); return nil }

func (t *Transport) Dial(ctx context.Context, address string, opts transport.DialOptions) (transport.PeerConn, error) {
	if t.closed.Load() {
		return nil, errors.New("memnet: transport closed")
	}
	if h := t.DialHook; h != nil {
		if err := h(ctx, address); err != nil {
			return nil, err
		}
	}
	if err := ctx.Err(); err != nil {
		return nil, err
	}
	t.n.mu.Lock()
	h := t.n.handlers[address]
	l := t.n.listeners[address]
	t.n.mu.Unlock()
	if h == nil && l == nil {
		return nil, ErrRefused
	}
	id := t.n.serial.Add(1)
	d, a := newPair(id, t.name, address)
	if t.OnDialed != nil {
		t.OnDialed(d, a)
	}
	if h != nil {
		go h(a)
	} else {
		select {
		case l.q <- a:
		case <-l.done:
			return nil, ErrRefused
		case <-ctx.Done():
			return nil, ctx.Err()
		}
	}
	return d, nil
}

func (t *Transport) Listen(address string, opts transport.ListenOptions) (transport.Listener, error) {
	l := &Listener{n: t.n, a: address, q: make(chan *Conn, 64), done: make(chan struct{})}
	t.n.mu.Lock()
	defer t.n.mu.Unlock()
	if _, ok := t.n.listeners[address]; ok {
		return nil, fmt.Errorf("memnet: address %s in use", address)
	}
	t.n.listeners[address] = l
	return l, nil
}

// Listener implements transport.Listener.
type Listener struct {
	n    *Net
	a    string
	q    chan *Conn
	done chan struct{}
	once sync.Once
}

func (l *Listener) Accept(ctx context.Context) (transport.PeerConn, error) {
	select {
	case c := <-l.q:
		return c, nil
	case <-l.done:
		return nil, ErrClosed
	case <-ctx.Done():
		return nil, ctx.Err()
	}
}
func (l *Listener) Addr() net.Addr { return addr(l.a) }
func (l *Listener) Close() error {
	l.once.Do(func() {
		close(l.done)
		l.n.mu.Lock()
		if l.n.listeners[l.a] == l {
			delete(l.n.listeners, l.a)
		}
		l.n.mu.Unlock()
	})
	return nil
}

// ---------------------------------------------------------------- connections

// Conn is one end of an in-memory connection; implements transport.PeerConn.
type Conn struct {
	Serial uint64 // same on both ends of a pair
	dialer bool
	local  string
	remote string
	other  *Conn

	mu      sync.Mutex
	streams []*Stream
	acceptQ chan *Stream
	done    chan struct{}
	once    sync.Once

	failWrites atomic.Pointer[error]
	nextStream atomic.Uint64
	gateMu     sync.Mutex
	closeGate  <-chan struct{} // Close blocks on it first (a transport Close that blocks)
	closeEnter chan struct{}   // closed when Close has been entered and is waiting on the gate
	// WrittenBytes counts payload bytes accepted by Write on this end.
	WrittenBytes atomic.Int64
}

// Addresses of a connection end carry the pair serial: "<name>#<serial>".
func newPair(serial uint64, from, to string) (*Conn, *Conn) {
	from = fmt.Sprintf("%s#%d", from, serial)
	to = fmt.Sprintf("%s#%d", to, serial)
	d := &Conn{Serial: serial, dialer: true, local: from, remote: to, acceptQ: make(chan *Stream, 64), done: make(chan struct{})}
	a := &Conn{Serial: serial, dialer: false, local: to, remote: from, acceptQ: make(chan *Stream, 64), done: make(chan struct{})}
	d.other, a.other = a, d
	return d, a
}

// Pair creates a connected pair without going through a Net (dialer end first).
func Pair(serial uint64) (*Conn, *Conn) { return newPair(serial, "dialer", "acceptor") }

func (c *Conn) Other() *Conn                           { return c.other }
func (c *Conn) IsDialer() bool                         { return c.dialer }
func (c *Conn) LocalAddr() net.Addr                    { return addr(c.local) }
func (c *Conn) RemoteAddr() net.Addr                   { return addr(c.remote) }
func (c *Conn) TransportType() transport.TransportType { return transport.TransportQUIC }
func (c *Conn) Done() <-chan struct{}                  { return c.done }

func (c *Conn) isDone() bool {
	select {
	case <-c.done:
		return true
	default:
		return false
	}
}

func (c *Conn) OpenStream(ctx context.Context) (transport.Stream, error) {
	if c.isDone() || c.other.isDone() {
		return nil, ErrClosed
	}
	ab, ba := newHalf(), newHalf()
	id := c.nextStream.Add(1)
	ls := &Stream{id: id, c: c, r: ba, w: ab}
	rs := &Stream{id: id, c: c.other, r: ab, w: ba}
	c.mu.Lock()
	c.streams = append(c.streams, ls)
	c.mu.Unlock()
	c.other.mu.Lock()
	c.other.streams = append(c.other.streams, rs)
	c.other.mu.Unlock()
	if c.isDone() || c.other.isDone() {
		// closed while the stream was being created: Close() may have missed it
		ls.Close()
		rs.Close()
		return nil, ErrClosed
	}
	select {
	case c.other.acceptQ <- rs:
		return ls, nil
	case <-c.done:
		return nil, ErrClosed
	case <-c.other.done:
		return nil, ErrClosed
	case <-ctx.Done():
		return nil, ctx.Err()
	}
}

func (c *Conn) AcceptStream(ctx context.Context) (transport.Stream, error) {
	select {
	case s := <-c.acceptQ:
		return s, nil
	case <-c.done:
		return nil, ErrClosed
	case <-ctx.Done():
		return nil, ctx.Err()
	}
}

// Close closes this end: local reads and writes fail, the other end reads EOF after
// draining what was already written and its writes fail.
func (c *Conn) Close() error {
	c.once.Do(func() {
		c.gateMu.Lock()
		g, e := c.closeGate, c.closeEnter
		c.gateMu.Unlock()
		if g != nil {
			close(e)
			<-g
		}
		close(c.done)
		c.mu.Lock()
		ss := append([]*Stream(nil), c.streams...)
		c.mu.Unlock()
		for _, s := range ss {
			s.Close()
		}
	})
	return nil
}

// GateClose makes the (first) Close of this end block until gate is closed; the returned
// channel is closed when Close has been entered. Models a transport whose Close blocks.
func (c *Conn) GateClose(gate <-chan struct{}) <-chan struct{} {
	c.gateMu.Lock()
	defer c.gateMu.Unlock()
	c.closeGate = gate
	c.closeEnter = make(chan struct{})
	return c.closeEnter
}

// FailWrites makes every later Write on this end fail with err (nil restores). Reads are
// unaffected: they keep blocking until data or a close arrives.
func (c *Conn) FailWrites(err error) {
	if err == nil {
		c.failWrites.Store(nil)
		return
	}
	c.failWrites.Store(&err)
}

// Sever fails both directions of both ends at once (a dead link noticed by everyone).
func (c *Conn) Sever() {
	for _, e := range []*Conn{c, c.other} {
		e.mu.Lock()
		ss := append([]*Stream(nil), e.streams...)
		e.mu.Unlock()
		for _, s := range ss {
			s.r.abort(ErrSevered)
			s.w.abort(ErrSevered)
		}
	}
}

// ---------------------------------------------------------------- streams

type half struct {
	mu      sync.Mutex
	cond    *sync.Cond
	buf     []byte
	wclosed bool  // writer finished: reader gets EOF after draining
	err     error // aborted: reader and writer fail immediately
}

func newHalf() *half { h := &half{}; h.cond = sync.NewCond(&h.mu); return h }

func (h *half) abort(err error) {
	h.mu.Lock()
	if h.err == nil {
		h.err = err
	}
	h.cond.Broadcast()
	h.mu.Unlock()
}

func (h *half) closeWrite() {
	h.mu.Lock()
	h.wclosed = true
	h.cond.Broadcast()
	h.mu.Unlock()
}

// Stream implements transport.Stream.
type Stream struct {
	id uint64
	c  *Conn
	r  *half // incoming
	w  *half // outgoing
}

func (s *Stream) StreamID() uint64 { return s.id }

func (s *Stream) Read(p []byte) (int, error) {
	h := s.r
	h.mu.Lock()
	defer h.mu.Unlock()
	for len(h.buf) == 0 && !h.wclosed && h.err == nil {
		h.cond.Wait()
	}
	if h.err != nil {
		return 0, h.err
	}
	if len(h.buf) > 0 {
		n := copy(p, h.buf)
		h.buf = h.buf[n:]
		return n, nil
	}
	return 0, io.EOF
}

func (s *Stream) Write(p []byte) (int, error) {
	if e := s.c.failWrites.Load(); e != nil {
		return 0, *e
	}
	if s.c.isDone() {
		return 0, ErrClosed
	}
	h := s.w
	h.mu.Lock()
	defer h.mu.Unlock()
	if h.err != nil {
		return 0, h.err
	}
	if h.wclosed {
		return 0, ErrClosed
	}
	h.buf = append(h.buf, p...)
	s.c.WrittenBytes.Add(int64(len(p)))
	h.cond.Broadcast()
	return len(p), nil
}

func (s *Stream) CloseWrite() error { s.w.closeWrite(); return nil }

// Close: our writes end (peer reads EOF after drain, and the peer's writes towards us fail),
// our reads fail immediately.
func (s *Stream) Close() error {
	s.w.closeWrite()
	s.r.abort(ErrClosed)
	return nil
}

func (s *Stream) SetDeadline(t time.Time) error      { return nil }
func (s *Stream) SetReadDeadline(t time.Time) error  { return nil }
func (s *Stream) SetWriteDeadline(t time.Time) error { return nil }
