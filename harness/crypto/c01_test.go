package crypto_test

// C01 — sessions accept only fresh authentic messages from the other end.
//
// Monitor: every Encrypt/Decrypt call on a real initiator/responder SessionKey pair is
// recorded; the oracle is a reference model of "what the opposite endpoint produced and
// what was already accepted", plus a twin endpoint that never sees adversarial input
// (non-interference of rejected input).

import (
	"bytes"
	"encoding/binary"
	"fmt"
	"sync"
	"testing"

	"github.com/postalsys/muti-metroo/internal/crypto"
	"github.com/postalsys/muti-metroo/internal/verifkit"
)

type c01End struct {
	name    string
	key     *crypto.SessionKey // primary: sees everything
	twin    *crypto.SessionKey // sees only what the model calls genuine-and-fresh
	sent    [][]byte           // ciphertexts this end produced (index = send order)
	plain   [][]byte
	highest int // highest accepted index of the *peer's* ciphertexts, -1 if none
	skipped bool
}

func c01Pair(rng *verifkit.Rand) (*c01End, *c01End) {
	var secret, ipub, rpub [32]byte
	rng.Fill(secret[:])
	rng.Fill(ipub[:])
	rng.Fill(rpub[:])
	id := rng.U64()
	mk := func(init bool) *crypto.SessionKey {
		return crypto.DeriveSessionKey(secret, id, ipub, rpub, init)
	}
	return &c01End{name: "I", key: mk(true), twin: mk(true), highest: -1},
		&c01End{name: "R", key: mk(false), twin: mk(false), highest: -1}
}

type c01Step struct {
	Op     string `json:"op"`
	To     string `json:"to,omitempty"`
	Idx    int    `json:"idx,omitempty"`
	Input  string `json:"input,omitempty"`
	Expect string `json:"expect,omitempty"`
	Got    string `json:"got,omitempty"`
}

func TestVerif_C01(t *testing.T) {
	r := verifkit.Start(t, "C01", "unit")
	r.Rule("PRNG histories of seal/deliver/adversary steps on a real initiator+responder SessionKey pair; " +
		"non-trivial = history with >=1 accepted genuine message and >=1 adversarial input judged; distinct by hash of the step list")
	n := r.N(4000, 150000)
	r.Cases("hist", n, func(ci int, rng *verifkit.Rand) { c01History(r, "hist", ci, rng) })
	c01Concurrent(r)
	r.Require("accepted_genuine", 100)
	r.Require("adversarial_rejected", 100)
}

// TestVerif_C01_Race is the concurrent-receivers phase alone; the driver always builds it with
// the race detector (a data race on the receive window is a violation of "for every schedule").
func TestVerif_C01_Race(t *testing.T) {
	r := verifkit.Start(t, "C01", "conc-race")
	r.Rule("4-8 goroutines present the same 24 genuine ciphertexts to one endpoint concurrently, under the Go race detector; each ciphertext may be accepted at most once; " +
		"non-trivial = round with >= 1 accept; distinct by (workers, accept vector)")
	c01Concurrent(r)
	r.Require("concurrent_accepts", 100)
}

func c01History(r *verifkit.R, phase string, ci int, rng *verifkit.Rand) {
	a, b := c01Pair(rng)
	ends := map[string]*c01End{"I": a, "R": b}
	peer := map[string]*c01End{"I": b, "R": a}
	var steps []c01Step
	accepted, adv := 0, 0
	bad := func(key, msg string) {
		r.Violation(key, phase, ci, msg, steps)
	}
	// deliver input to end X. producer/idx identify the genuine ciphertext it equals (or nil).
	deliver := func(x *c01End, in []byte, desc string) {
		p := peer[x.name]
		genuineIdx := -1
		for i, c := range p.sent {
			if bytes.Equal(c, in) {
				genuineIdx = i
			}
		}
		mayAccept := genuineIdx >= 0 && genuineIdx > x.highest
		pt, err := x.key.Decrypt(append([]byte(nil), in...))
		st := c01Step{Op: desc, To: x.name, Idx: genuineIdx, Input: verifkit.Hex(in)}
		if err == nil {
			st.Got = "accept"
		} else {
			st.Got = "reject: " + err.Error()
		}
		if mayAccept {
			st.Expect = "may-accept"
		} else {
			st.Expect = "must-reject"
		}
		steps = append(steps, st)
		if !mayAccept {
			adv++
			if err == nil {
				kind := desc
				bad("accepted:"+kind, fmt.Sprintf("endpoint %s accepted input that is not a fresh genuine message of its peer (%s)", x.name, desc))
			} else {
				r.Add("adversarial_rejected", 1)
			}
			return
		}
		// genuine and fresh: the twin sees it too
		tpt, terr := x.twin.Decrypt(append([]byte(nil), in...))
		if (err == nil) != (terr == nil) {
			bad("interference", fmt.Sprintf("endpoint %s %s a genuine fresh message (idx %d) that its twin, which never saw the rejected inputs, %s: primary err=%v twin err=%v",
				x.name, map[bool]string{true: "accepted", false: "rejected"}[err == nil], genuineIdx,
				map[bool]string{true: "accepted", false: "rejected"}[terr == nil], err, terr))
		}
		if err == nil {
			if !bytes.Equal(pt, p.plain[genuineIdx]) || (terr == nil && !bytes.Equal(tpt, pt)) {
				bad("wrong-plaintext", "accepted message opened to a different plaintext")
			}
			// in-order next message with nothing skipped must be accepted by any usable implementation
			x.highest = genuineIdx
			accepted++
			r.Add("accepted_genuine", 1)
		} else if genuineIdx == x.highest+1 && !x.skipped {
			bad("rejected-in-order", fmt.Sprintf("endpoint %s rejected the next in-order genuine message although every earlier one was delivered in order: %v", x.name, err))
		} else {
			r.Add("genuine_fresh_rejected", 1)
		}
		if err == nil && genuineIdx != x.highest {
			x.skipped = true
		}
	}
	forge := func(x *c01End, ctr uint64, flipDir bool) []byte {
		// what an adversary without the key can build: right-looking nonce, random body/tag
		p := peer[x.name]
		f := make([]byte, 12+rng.Intn(40)+16)
		rng.Fill(f)
		var n [12]byte
		dirResponder := p.name == "R"
		if flipDir {
			dirResponder = !dirResponder
		}
		if dirResponder {
			n[0] = 0x80
		}
		binary.BigEndian.PutUint64(n[4:], ctr)
		copy(f, n[:])
		return f
	}
	nsteps := rng.Range(10, 60)
	for s := 0; s < nsteps; s++ {
		x := ends[[]string{"I", "R"}[rng.Intn(2)]]
		p := peer[x.name]
		switch k := rng.Intn(20); {
		case k < 5: // peer seals
			pl := rng.Bytes(rng.Intn(48))
			ct, err := p.key.Encrypt(pl)
			if err != nil {
				bad("encrypt-error", err.Error())
				return
			}
			// keep twin's send counter in step (twin of p seals the same payload)
			if tct, terr := p.twin.Encrypt(pl); terr != nil || !bytes.Equal(tct, ct) {
				bad("nondeterministic-seal", "twin endpoint sealed differently")
			}
			p.sent = append(p.sent, ct)
			p.plain = append(p.plain, pl)
			steps = append(steps, c01Step{Op: "seal", To: p.name, Idx: len(p.sent) - 1})
		case k < 9: // deliver next undelivered (in order)
			if x.highest+1 < len(p.sent) {
				deliver(x, p.sent[x.highest+1], "deliver-next")
			}
		case k < 10: // deliver some later one (skip ahead = drop + reorder)
			if x.highest+2 < len(p.sent) {
				j := rng.Range(x.highest+2, len(p.sent)-1)
				x.skipped = true
				deliver(x, p.sent[j], "deliver-skip")
			}
		case k < 12: // replay/duplicate any already sent
			if len(p.sent) > 0 {
				j := rng.Intn(len(p.sent))
				if j <= x.highest {
					deliver(x, p.sent[j], "replay")
				} else {
					if j != x.highest+1 {
						x.skipped = true
					}
					deliver(x, p.sent[j], "deliver-any")
				}
			}
		case k < 14: // reflect: own ciphertext back to its sender
			if len(x.sent) > 0 {
				deliver(x, x.sent[rng.Intn(len(x.sent))], "reflect")
			}
		case k < 16: // bit flip in a genuine ciphertext
			if len(p.sent) > 0 {
				c := append([]byte(nil), p.sent[rng.Intn(len(p.sent))]...)
				var pos int
				switch rng.Intn(4) {
				case 0:
					pos = rng.Intn(4)
				case 1:
					pos = 4 + rng.Intn(8)
				case 2:
					pos = len(c) - 1 - rng.Intn(16)
				default:
					pos = rng.Intn(len(c))
				}
				c[pos] ^= 1 << uint(rng.Intn(8))
				deliver(x, c, "bitflip")
			}
		case k < 18: // forged frame with chosen counter
			cur := uint64(x.highest + 1)
			ctrs := []uint64{0, cur, cur + 1, cur - 1, cur + 1000, 1 << 32, 1 << 40, 1 << 63, ^uint64(0) - 1, ^uint64(0), rng.U64()}
			deliver(x, forge(x, ctrs[rng.Intn(len(ctrs))], rng.Chance(1, 4)), "forged")
		case k < 19: // truncation / extension
			if len(p.sent) > 0 {
				c := p.sent[rng.Intn(len(p.sent))]
				if rng.Bool() {
					deliver(x, c[:rng.Intn(len(c))], "truncated")
				} else {
					deliver(x, append(append([]byte(nil), c...), rng.Bytes(1+rng.Intn(4))...), "extended")
				}
			}
		default: // splice: genuine nonce of a later message over an earlier body
			if len(p.sent) >= 2 {
				i, j := rng.Intn(len(p.sent)), rng.Intn(len(p.sent))
				if i != j {
					c := append([]byte(nil), p.sent[i]...)
					copy(c[:12], p.sent[j][:12])
					deliver(x, c, "splice")
				}
			}
		}
	}
	// drain: after all adversarial traffic, the remaining genuine messages, in order, must
	// behave exactly as on the twin (this is where a moved receive window shows).
	for _, x := range []*c01End{a, b} {
		p := peer[x.name]
		for x.highest+1 < len(p.sent) {
			before := x.highest
			deliver(x, p.sent[x.highest+1], "drain-next")
			if x.highest == before {
				break
			}
		}
	}
	fp := fmt.Sprintf("%v", steps)
	r.Eval(fp, accepted > 0 && adv > 0)
	if r.NeedSample() && accepted > 0 && adv > 0 {
		r.Sample(steps)
	}
}

// c01Concurrent: many goroutines present the same genuine ciphertexts concurrently; each
// ciphertext may be accepted at most once in total.
func c01Concurrent(r *verifkit.R) {
	rounds := r.N(40, 600)
	if r.Part == "conc-race" {
		rounds = r.N(500, 3000)
	}
	r.Cases("conc", rounds, func(ci int, rng *verifkit.Rand) {
		a, b := c01Pair(rng)
		const msgs = 24
		for i := 0; i < msgs; i++ {
			pl := []byte(fmt.Sprintf("m%03d", i))
			ct, _ := a.key.Encrypt(pl)
			a.sent = append(a.sent, ct)
		}
		workers := 4 + rng.Intn(5)
		acc := make([]int32, msgs)
		var mu sync.Mutex
		var wg sync.WaitGroup
		for w := 0; w < workers; w++ {
			wg.Add(1)
			wr := rng.Fork()
			go func() {
				defer wg.Done()
				for k := 0; k < msgs*2; k++ {
					i := wr.Intn(msgs)
					if _, err := b.key.Decrypt(append([]byte(nil), a.sent[i]...)); err == nil {
						mu.Lock()
						acc[i]++
						mu.Unlock()
					}
				}
			}()
		}
		wg.Wait()
		tot := 0
		for i, c := range acc {
			tot += int(c)
			if c > 1 {
				r.Violation("accepted-twice-concurrent", "conc", ci, fmt.Sprintf("ciphertext %d accepted %d times by concurrent receivers", i, c), nil)
			}
		}
		r.Add("concurrent_accepts", tot)
		r.Eval(fmt.Sprintf("conc-%d-%v", workers, acc), tot > 0)
	})
}
