package crypto_test

// C02 — no nonce is ever reused under a session key, in either direction.
//
// Monitor: the 12-byte nonce prefix of every ciphertext produced by both endpoints of a
// session (same key), under 2..16 concurrent sealers per endpoint. Oracle: the multiset of
// nonces under the key has no duplicate; initiator and responder nonce sets are disjoint.

import (
	"fmt"
	"sync"
	"testing"

	"github.com/postalsys/muti-metroo/internal/crypto"
	"github.com/postalsys/muti-metroo/internal/verifkit"
)

func TestVerif_C02(t *testing.T) {
	r := verifkit.Start(t, "C02", "unit")
	r.Rule("sessions with PRNG key material; g goroutines per endpoint x both endpoints seal m messages each concurrently (interleaved with Decrypt calls of the peer's traffic); " +
		"non-trivial = session with >= 2 concurrent sealers on each endpoint; distinct by (goroutines, messages, set of per-endpoint nonce counts)")
	sessions := r.N(300, 3000)
	r.Cases("sess", sessions, func(ci int, rng *verifkit.Rand) {
		var secret, ipub, rpub [32]byte
		rng.Fill(secret[:])
		rng.Fill(ipub[:])
		rng.Fill(rpub[:])
		id := rng.U64()
		ini := crypto.DeriveSessionKey(secret, id, ipub, rpub, true)
		rsp := crypto.DeriveSessionKey(secret, id, ipub, rpub, false)
		if ini.Key() != rsp.Key() {
			r.Violation("keys-differ", "sess", ci, "initiator and responder derived different keys from identical inputs", nil)
			return
		}
		g := rng.Range(1, 16)
		m := rng.Range(1, r.N(300, 3000))
		type rec struct {
			who   byte
			nonce [12]byte
		}
		out := make(chan []rec, 2*g)
		var wg sync.WaitGroup
		feed := make(chan []byte, 64) // ciphertexts from ini handed to rsp.Decrypt concurrently
		for e, k := range []*crypto.SessionKey{ini, rsp} {
			for w := 0; w < g; w++ {
				wg.Add(1)
				wr := rng.Fork()
				go func(who byte, k *crypto.SessionKey) {
					defer wg.Done()
					recs := make([]rec, 0, m)
					for i := 0; i < m; i++ {
						ct, err := k.Encrypt(wr.Bytes(wr.Intn(24)))
						if err != nil || len(ct) < 28 {
							r.Violation("encrypt-failed", "sess", ci, fmt.Sprintf("Encrypt: %v len=%d", err, len(ct)), nil)
							return
						}
						var n [12]byte
						copy(n[:], ct[:12])
						recs = append(recs, rec{who, n})
						if who == 0 && i%7 == 0 {
							select {
							case feed <- ct:
							default:
							}
						}
					}
					out <- recs
				}(byte(e), k)
			}
		}
		// a receiver decrypting concurrently (Decrypt shares the mutex/state with Encrypt)
		done := make(chan struct{})
		go func() {
			for ct := range feed {
				_, _ = rsp.Decrypt(ct)
			}
			close(done)
		}()
		wg.Wait()
		close(feed)
		<-done
		close(out)
		seen := map[[12]byte]byte{}
		cnt := [2]int{}
		for recs := range out {
			for _, x := range recs {
				if prev, dup := seen[x.nonce]; dup {
					key := "nonce-reused:same-endpoint"
					if prev != x.who {
						key = "nonce-reused:across-directions"
					}
					r.Violation(key, "sess", ci, fmt.Sprintf("nonce %s sealed twice under one key (endpoints %d and %d), g=%d m=%d", verifkit.Hex(x.nonce[:]), prev, x.who, g, m), nil)
				}
				seen[x.nonce] = x.who
				cnt[x.who]++
			}
		}
		r.Add("nonces_observed", cnt[0]+cnt[1])
		r.Add("sessions", 1)
		r.Eval(fmt.Sprintf("g%d-m%d-%d-%d", g, m, cnt[0], cnt[1]), g >= 2)
		if r.NeedSample() {
			r.Sample(map[string]any{"goroutines_per_endpoint": g, "messages_per_goroutine": m, "nonces_initiator": cnt[0], "nonces_responder": cnt[1], "distinct": len(seen)})
		}
	})
	r.Require("nonces_observed", 10000)
}
