package health_test

// C24 — the HTTP API enforces bearer-token auth and endpoint-group gating.
//
// Monitor: a real health.Server on a loopback socket; requests are written as raw bytes
// (request line + headers), so every path spelling reaches the server exactly as generated;
// every provider the server can call is a fake that records the call. One server per
// configuration is driven sequentially, so the calls between "request written" and
// "response completely read" belong to that request.
//
// Oracle (reference model of the property text, computed from the raw request alone):
//   * token configured, request carries no valid token in the Authorization header / ?token=,
//     percent-decoded path not literally one of /health /healthz /ready / /logo.png
//       => status 401 and zero provider calls;
//   * the same request on an exempt path => no provider call other than the stats probe;
//   * a request that is allowed past auth, whose decoded clean path lies in a disabled
//     endpoint group => 404 and zero provider calls; other spellings derived from a route of
//     a disabled group => no 2xx and no call unless the spelling resolves to an enabled group
//     or an exempt endpoint, and in any case no call that only the disabled group makes.
// Sanity (monitor validation, not property): the valid token is accepted; every provider
// method is seen at least once on authorised traffic (otherwise the run is inconclusive).

import (
	"bufio"
	"bytes"
	"context"
	"crypto/sha256"
	"encoding/base64"
	"encoding/hex"
	"errors"
	"fmt"
	"io"
	"mime/multipart"
	"net"
	"net/http"
	"path"
	"sort"
	"strings"
	"sync"
	"testing"
	"time"

	"golang.org/x/crypto/bcrypt"

	"github.com/postalsys/muti-metroo/internal/filetransfer"
	"github.com/postalsys/muti-metroo/internal/health"
	"github.com/postalsys/muti-metroo/internal/identity"
	"github.com/postalsys/muti-metroo/internal/protocol"
	"github.com/postalsys/muti-metroo/internal/shell"
	"github.com/postalsys/muti-metroo/internal/verifkit"
)

// ---------------------------------------------------------------- fake providers

type c24Fake struct {
	mu    sync.Mutex
	log   []string
	local identity.AgentID
	other identity.AgentID
}

func (f *c24Fake) hit(n string) { f.mu.Lock(); f.log = append(f.log, n); f.mu.Unlock() }
func (f *c24Fake) mark() int    { f.mu.Lock(); defer f.mu.Unlock(); return len(f.log) }
func (f *c24Fake) since(m int) []string {
	f.mu.Lock()
	defer f.mu.Unlock()
	return append([]string(nil), f.log[m:]...)
}

// StatsProvider
func (f *c24Fake) IsRunning() bool     { f.hit("IsRunning"); return true }
func (f *c24Fake) Stats() health.Stats { f.hit("Stats"); return health.Stats{PeerCount: 1} }

// RemoteStatusProvider
func (f *c24Fake) ID() identity.AgentID { f.hit("ID"); return f.local }
func (f *c24Fake) DisplayName() string  { f.hit("DisplayName"); return "local" }
func (f *c24Fake) SendControlRequest(ctx context.Context, t identity.AgentID, ct uint8) (*protocol.ControlResponse, error) {
	f.hit("SendControlRequest")
	return &protocol.ControlResponse{ControlType: ct, Success: true, Data: []byte(`{"ok":true}`)}, nil
}
func (f *c24Fake) SendControlRequestWithData(ctx context.Context, t identity.AgentID, ct uint8, d []byte) (*protocol.ControlResponse, error) {
	f.hit("SendControlRequestWithData")
	return &protocol.ControlResponse{ControlType: ct, Success: true, Data: []byte(`{"ok":true}`)}, nil
}
func (f *c24Fake) GetPeerIDs() []identity.AgentID { f.hit("GetPeerIDs"); return nil }
func (f *c24Fake) GetKnownAgentIDs() []identity.AgentID {
	f.hit("GetKnownAgentIDs")
	return []identity.AgentID{f.local, f.other}
}
func (f *c24Fake) GetPeerDetails() []health.PeerDetails   { f.hit("GetPeerDetails"); return nil }
func (f *c24Fake) GetRouteDetails() []health.RouteDetails { f.hit("GetRouteDetails"); return nil }
func (f *c24Fake) GetDomainRouteDetails() []health.DomainRouteDetails {
	f.hit("GetDomainRouteDetails")
	return nil
}
func (f *c24Fake) GetAllDisplayNames() map[identity.AgentID]string {
	f.hit("GetAllDisplayNames")
	return map[identity.AgentID]string{}
}
func (f *c24Fake) GetAllNodeInfo() map[identity.AgentID]*protocol.NodeInfo {
	f.hit("GetAllNodeInfo")
	return map[identity.AgentID]*protocol.NodeInfo{}
}
func (f *c24Fake) GetLocalNodeInfo() *protocol.NodeInfo { f.hit("GetLocalNodeInfo"); return nil }
func (f *c24Fake) GetSOCKS5Info() health.SOCKS5Info     { f.hit("GetSOCKS5Info"); return health.SOCKS5Info{} }
func (f *c24Fake) GetUDPInfo() health.UDPInfo           { f.hit("GetUDPInfo"); return health.UDPInfo{} }
func (f *c24Fake) GetPortForwardInfo() health.PortForwardInfo {
	f.hit("GetPortForwardInfo")
	return health.PortForwardInfo{}
}
func (f *c24Fake) GetPortForwardRouteDetails() []health.PortForwardRouteDetails {
	f.hit("GetPortForwardRouteDetails")
	return nil
}
func (f *c24Fake) UploadFile(ctx context.Context, t identity.AgentID, l, rp string, o health.TransferOptions, p health.FileTransferProgress) error {
	f.hit("UploadFile")
	return nil
}
func (f *c24Fake) DownloadFile(ctx context.Context, t identity.AgentID, rp, l string, o health.TransferOptions, p health.FileTransferProgress) error {
	f.hit("DownloadFile")
	return nil
}
func (f *c24Fake) DownloadFileStream(ctx context.Context, t identity.AgentID, rp string, o health.TransferOptions) (*health.DownloadStreamResult, error) {
	f.hit("DownloadFileStream")
	return nil, errors.New("fake: no such file")
}

// the other providers
func (f *c24Fake) TriggerRouteAdvertise() { f.hit("TriggerRouteAdvertise") }
func (f *c24Fake) TriggerSleep() error    { f.hit("TriggerSleep"); return nil }
func (f *c24Fake) TriggerWake() error     { f.hit("TriggerWake"); return nil }
func (f *c24Fake) GetSleepStatus() health.SleepStatusInfo {
	f.hit("GetSleepStatus")
	return health.SleepStatusInfo{State: "AWAKE", Enabled: true}
}
func (f *c24Fake) IsSleepEnabled() bool { f.hit("IsSleepEnabled"); return true }
func (f *c24Fake) ManageRoute(a, n string, m uint16) (*health.RouteManageResult, error) {
	f.hit("ManageRoute")
	return &health.RouteManageResult{Status: "ok"}, nil
}
func (f *c24Fake) ManageForwardListener(a, k, ad string, mc int) (*health.ForwardManageResult, error) {
	f.hit("ManageForwardListener")
	return &health.ForwardManageResult{Status: "ok"}, nil
}
func (f *c24Fake) ManageDisplayName(a, n string) (*health.DisplayNameManageResult, error) {
	f.hit("ManageDisplayName")
	return &health.DisplayNameManageResult{Status: "ok"}, nil
}
func (f *c24Fake) BrowseFiles(req *filetransfer.BrowseRequest) *filetransfer.BrowseResponse {
	f.hit("BrowseFiles")
	return &filetransfer.BrowseResponse{}
}
func (f *c24Fake) OpenShellStream(ctx context.Context, t identity.AgentID, m *shell.ShellMeta, i bool) (*health.ShellSession, error) {
	f.hit("OpenShellStream")
	return nil, errors.New("fake: shell refused")
}
func (f *c24Fake) OpenICMPSession(ctx context.Context, t identity.AgentID, ip net.IP) (*health.ICMPSession, error) {
	f.hit("OpenICMPSession")
	return nil, errors.New("fake: icmp refused")
}

// calls only a handler of the given group makes (used for spellings that legitimately reach another group)
var c24Exclusive = map[int]map[string]bool{
	c24Remote: {"SendControlRequestWithData": true, "UploadFile": true, "DownloadFile": true, "DownloadFileStream": true,
		"TriggerRouteAdvertise": true, "ManageRoute": true, "ManageForwardListener": true, "ManageDisplayName": true,
		"TriggerSleep": true, "TriggerWake": true, "GetSleepStatus": true, "IsSleepEnabled": true,
		"OpenShellStream": true, "OpenICMPSession": true, "BrowseFiles": true},
	c24Dash: {"GetPeerDetails": true, "GetRouteDetails": true, "GetDomainRouteDetails": true, "GetPortForwardRouteDetails": true,
		"GetSOCKS5Info": true, "GetUDPInfo": true, "GetPortForwardInfo": true},
	c24Pprof: {},
}

var c24AllMethods = []string{"IsRunning", "Stats", "ID", "DisplayName", "SendControlRequest", "SendControlRequestWithData",
	"GetKnownAgentIDs", "GetPeerDetails", "GetRouteDetails", "GetAllNodeInfo", "UploadFile", "DownloadFileStream",
	"TriggerRouteAdvertise", "TriggerSleep", "TriggerWake", "GetSleepStatus", "ManageRoute", "ManageForwardListener",
	"ManageDisplayName", "BrowseFiles", "OpenShellStream", "OpenICMPSession"}

// ---------------------------------------------------------------- routes and the reference model

const (
	c24Exempt = iota
	c24Remote
	c24Dash
	c24Pprof
	c24None
)

var c24GroupName = []string{"exempt", "remote", "dashboard", "pprof", "none"}

var c24ExemptSet = map[string]bool{"/health": true, "/healthz": true, "/ready": true, "/": true, "/logo.png": true}
var c24RemoteExact = map[string]bool{"/agents": true, "/routes/advertise": true, "/routes/manage": true, "/forward/manage": true,
	"/display-name/manage": true, "/sleep": true, "/sleep/status": true, "/wake": true}
var c24DashExact = map[string]bool{"/api/topology": true, "/api/dashboard": true, "/api/nodes": true, "/api/mesh-test": true}

func c24Resolve(p string) int {
	switch {
	case c24ExemptSet[p]:
		return c24Exempt
	case c24RemoteExact[p] || strings.HasPrefix(p, "/agents/"):
		return c24Remote
	case c24DashExact[p]:
		return c24Dash
	case strings.HasPrefix(p, "/debug/pprof/"):
		return c24Pprof
	}
	return c24None
}

func c24Clean(p string) string {
	if p == "" {
		return "/"
	}
	if p[0] != '/' {
		p = "/" + p
	}
	np := path.Clean(p)
	if p[len(p)-1] == '/' && np != "/" {
		np += "/"
	}
	return np
}

func c24Hex(c byte) int {
	switch {
	case c >= '0' && c <= '9':
		return int(c - '0')
	case c >= 'a' && c <= 'f':
		return int(c-'a') + 10
	case c >= 'A' && c <= 'F':
		return int(c-'A') + 10
	}
	return -1
}

// c24Decode: the path a server sees for this request-target (query cut, %XX decoded).
func c24Decode(method, target string) (p string, rawPath string, ok bool) {
	t := target
	if t == "*" {
		return "*", "*", true
	}
	if len(t) >= 7 && strings.EqualFold(t[:7], "http://") {
		t = t[7:]
		if i := strings.IndexByte(t, '/'); i >= 0 {
			t = t[i:]
		} else {
			t = ""
		}
	} else if method == "CONNECT" && !strings.HasPrefix(t, "/") {
		return "", "", true
	}
	if i := strings.IndexByte(t, '?'); i >= 0 {
		t = t[:i]
	}
	rawPath = t
	b := make([]byte, 0, len(t))
	for i := 0; i < len(t); i++ {
		if t[i] != '%' {
			b = append(b, t[i])
			continue
		}
		if i+2 > len(t)-1 {
			return "", rawPath, false
		}
		h, l := c24Hex(t[i+1]), c24Hex(t[i+2])
		if h < 0 || l < 0 {
			return "", rawPath, false
		}
		b = append(b, byte(h<<4|l))
		i += 2
	}
	return string(b), rawPath, true
}

type c24Route struct {
	path  string
	group int
}

func c24Routes(local, other identity.AgentID) []c24Route {
	o, l := other.String(), local.String()
	rs := []c24Route{
		{"/health", c24Exempt}, {"/healthz", c24Exempt}, {"/ready", c24Exempt}, {"/", c24Exempt}, {"/logo.png", c24Exempt},
		{"/agents", c24Remote}, {"/agents/" + o, c24Remote}, {"/agents/" + o + "/routes", c24Remote}, {"/agents/" + o + "/peers", c24Remote},
		{"/agents/" + o + "/shell", c24Remote}, {"/agents/" + o + "/icmp", c24Remote}, {"/agents/" + o + "/routes/manage", c24Remote},
		{"/agents/" + o + "/forward/manage", c24Remote}, {"/agents/" + o + "/display-name/manage", c24Remote},
		{"/agents/" + l + "/file/browse", c24Remote}, {"/agents/" + o + "/file/browse", c24Remote},
		{"/agents/" + o + "/file/upload", c24Remote}, {"/agents/" + o + "/file/download", c24Remote},
		{"/routes/advertise", c24Remote}, {"/routes/manage", c24Remote}, {"/forward/manage", c24Remote},
		{"/display-name/manage", c24Remote}, {"/sleep", c24Remote}, {"/sleep/status", c24Remote}, {"/wake", c24Remote},
		{"/api/topology", c24Dash}, {"/api/dashboard", c24Dash}, {"/api/nodes", c24Dash}, {"/api/mesh-test", c24Dash},
		{"/debug/pprof/", c24Pprof}, {"/debug/pprof/cmdline", c24Pprof}, {"/debug/pprof/profile", c24Pprof},
		{"/debug/pprof/symbol", c24Pprof}, {"/debug/pprof/trace", c24Pprof}, {"/debug/pprof/goroutine", c24Pprof},
		{"/debug/pprof/heap", c24Pprof},
	}
	return rs
}

// ---------------------------------------------------------------- token presentations

const (
	c24Invalid = iota
	c24Valid
	c24Ambiguous
)

type c24Pres struct {
	name    string
	class   int
	headers []string // extra header lines
	query   []string // extra query items
}

func c24Flip(s string) string {
	b := []byte(s)
	for i, c := range b {
		switch {
		case c >= 'a' && c <= 'z':
			b[i] = c - 32
		case c >= 'A' && c <= 'Z':
			b[i] = c + 32
		}
	}
	return string(b)
}

func c24PctAll(s string) string {
	var sb strings.Builder
	for i := 0; i < len(s); i++ {
		fmt.Fprintf(&sb, "%%%02X", s[i])
	}
	return sb.String()
}

func c24Presentations(tok, hash string, rng *verifkit.Rand) []c24Pres {
	wrong := rng.Token(len(tok))
	sum := sha256.Sum256([]byte(tok))
	H := func(v string) []string { return []string{"Authorization: " + v} }
	return []c24Pres{
		{"none", c24Invalid, nil, nil},
		{"hdr-valid", c24Valid, H("Bearer " + tok), nil},
		{"query-valid", c24Valid, nil, []string{"token=" + tok}},
		{"both-valid", c24Valid, H("Bearer " + tok), []string{"token=" + tok}},
		{"hdr-wrong", c24Invalid, H("Bearer " + wrong), nil},
		{"query-wrong", c24Invalid, nil, []string{"token=" + wrong}},
		{"hdr-case-flipped", c24Invalid, H("Bearer " + c24Flip(tok)), nil},
		{"hdr-prefix", c24Invalid, H("Bearer " + tok[:len(tok)-1]), nil},
		{"hdr-short-prefix", c24Invalid, H("Bearer " + tok[:4]), nil},
		{"hdr-extended", c24Invalid, H("Bearer " + tok + "x"), nil},
		{"hdr-suffix", c24Invalid, H("Bearer " + tok[1:]), nil},
		{"hdr-empty-bearer", c24Invalid, H("Bearer "), nil},
		{"hdr-basic", c24Invalid, H("Basic " + base64.StdEncoding.EncodeToString([]byte("admin:"+tok))), nil},
		{"hdr-basic-raw", c24Invalid, H("Basic " + tok), nil},
		{"hdr-token-scheme", c24Invalid, H("Token " + tok), nil},
		{"hdr-nospace", c24Invalid, H("Bearer" + tok), nil},
		{"hdr-the-hash", c24Invalid, H("Bearer " + hash), nil},
		{"hdr-sha256", c24Invalid, H("Bearer " + hex.EncodeToString(sum[:])), nil},
		{"other-header", c24Invalid, []string{"X-Api-Token: " + tok, "Cookie: token=" + tok, "Proxy-Authorization: Bearer " + tok}, nil},
		{"query-wrong-key", c24Invalid, nil, []string{"Token=" + tok, "access_token=" + tok, "token_=" + tok, "xtoken=" + tok}},
		{"query-case-flipped", c24Invalid, nil, []string{"token=" + c24Flip(tok)}},
		{"query-prefix", c24Invalid, nil, []string{"token=" + tok[:len(tok)-1]}},
		{"query-extended", c24Invalid, nil, []string{"token=" + tok + "x"}},
		{"query-empty", c24Invalid, nil, []string{"token="}},
		// the property does not say how these are to be treated: either outcome is accepted
		{"hdr-lower-scheme", c24Ambiguous, H("bearer " + tok), nil},
		{"hdr-upper-scheme", c24Ambiguous, H("BEARER " + tok), nil},
		{"hdr-valid-query-wrong", c24Ambiguous, H("Bearer " + tok), []string{"token=" + wrong}},
		{"hdr-wrong-query-valid", c24Ambiguous, H("Bearer " + wrong), []string{"token=" + tok}},
		{"query-pct-encoded", c24Ambiguous, nil, []string{"token=" + c24PctAll(tok)}},
		{"query-second-valid", c24Ambiguous, nil, []string{"token=" + wrong, "token=" + tok}},
	}
}

// ---------------------------------------------------------------- path spellings

type c24Var struct {
	kind   string
	target string // path part of the request-target (may be absolute-form)
}

func c24Upper(s string) string { return strings.ToUpper(s) }

// c24Variants returns the spellings derived from canonical route b.
func c24Variants(b string, tok string) []c24Var {
	last := b
	if i := strings.LastIndexByte(strings.TrimSuffix(b, "/"), '/'); i >= 0 {
		last = b[i+1:]
	}
	inner := b
	if len(b) > 1 {
		inner = b[1:]
	}
	v := []c24Var{{"canonical", b}}
	add := func(k, t string) { v = append(v, c24Var{k, t}) }
	if strings.HasSuffix(b, "/") && len(b) > 1 {
		add("no-trailing-slash", strings.TrimSuffix(b, "/"))
	} else {
		add("trailing-slash", b+"/")
	}
	add("double-leading-slash", "/"+b)
	if i := strings.IndexByte(inner, '/'); i >= 0 {
		add("double-inner-slash", "/"+inner[:i]+"/"+inner[i:])
		add("pct2f-inner", "/"+inner[:i]+"%2f"+inner[i+1:])
		add("pct2F-inner", "/"+inner[:i]+"%2F"+inner[i+1:])
		add("dot-inner", "/"+inner[:i]+"/."+inner[i:])
		add("backslash-inner", "/"+inner[:i]+"\\"+inner[i+1:])
	}
	add("dot-prefix", "/."+b)
	add("dotdot-prefix", "/x/.."+b)
	add("dotdot-root", "/.."+b)
	add("pct2e-prefix", "/%2e"+b)
	add("pct2e2e-prefix", "/x/%2e%2e"+b)
	add("pct2e2e-pct2f", "/x%2f%2e%2e"+strings.ReplaceAll(b, "/", "%2f"))
	for _, ex := range []string{"/health", "/healthz", "/ready", "/logo.png"} {
		add("exempt-dotdot", ex+"/.."+b)
		add("exempt-prefix", ex+b)
		add("exempt-pct", ex+"/%2e%2e"+b)
		add("exempt-semicolon", ex+";"+b)
	}
	add("exempt-suffix", b+"/../health")
	add("exempt-suffix-root", b+"/..")
	add("upper", c24Upper(b))
	if len(inner) > 0 {
		add("capitalised", "/"+strings.ToUpper(inner[:1])+inner[1:])
		add("pct-first-letter", fmt.Sprintf("/%%%02x%s", inner[0], inner[1:]))
		add("pct-all", "/"+strings.ReplaceAll(c24PctAll(inner), "%2F", "/"))
	}
	add("suffix-x", b+"x")
	add("suffix-json", b+".json")
	add("suffix-png", b+".png")
	add("suffix-logo", strings.TrimSuffix(b, "/")+"/logo.png")
	add("suffix-health", strings.TrimSuffix(b, "/")+"/health")
	add("suffix-matrix", b+";x=1")
	add("suffix-nul", b+"%00")
	add("suffix-space", b+"%20")
	add("suffix-seg", strings.TrimSuffix(b, "/")+"/x")
	if len(b) > 2 {
		add("truncated", b[:len(b)-1])
	}
	add("fragment", b+"#frag")
	add("pct3f-token", b+"%3Ftoken="+tok)
	add("pct3f-token-lower", b+"%3ftoken="+tok)
	add("token-in-path", strings.TrimSuffix(b, "/")+"/"+tok)
	add("bad-escape", b+"%zz")
	add("bad-escape-short", b+"%2")
	add("overlong-utf8", strings.Replace(b, "/", "/%c0%af", 1))
	add("absolute-form", "http://127.0.0.1"+b)
	add("absolute-form-exempt", "http://health/health/.."+b)
	add("absolute-form-upper", "HTTP://c24.test"+b)
	_ = last
	return v
}

// ---------------------------------------------------------------- raw HTTP client

type c24Client struct {
	addr string
	conn net.Conn
	br   *bufio.Reader
}

type c24Resp struct {
	status int
	body   []byte // first bytes only
	wsMsg  []byte
}

var c24ErrWatchdog = errors.New("watchdog")

func (c *c24Client) close() {
	if c.conn != nil {
		c.conn.Close()
		c.conn = nil
	}
}

func (c *c24Client) dial() error {
	conn, err := net.DialTimeout("tcp", c.addr, 30*time.Second)
	if err != nil {
		return err
	}
	c.conn = conn
	c.br = bufio.NewReaderSize(conn, 8192)
	return nil
}

// do writes the raw request and reads one complete response.
func (c *c24Client) do(method string, raw []byte, ws []byte) (c24Resp, error) {
	var lastErr error
	for attempt := 0; attempt < 3; attempt++ {
		if c.conn == nil {
			if err := c.dial(); err != nil {
				lastErr = err
				continue
			}
		}
		c.conn.SetDeadline(time.Now().Add(120 * time.Second))
		if _, err := c.conn.Write(raw); err != nil {
			lastErr = err
			c.close()
			continue
		}
		resp, err := http.ReadResponse(c.br, &http.Request{Method: method})
		if err != nil {
			var ne net.Error
			if errors.As(err, &ne) && ne.Timeout() {
				c.close()
				return c24Resp{}, c24ErrWatchdog
			}
			lastErr = err
			c.close()
			continue
		}
		out := c24Resp{status: resp.StatusCode}
		if resp.StatusCode == http.StatusSwitchingProtocols {
			// WebSocket accepted: send the first client frame, read the first server frame
			if ws != nil {
				c.conn.Write(ws)
				out.wsMsg = c24ReadFrame(c.br)
			}
			c.close()
			return out, nil
		}
		buf := make([]byte, 512)
		n, _ := io.ReadFull(resp.Body, buf)
		out.body = buf[:n]
		_, cerr := io.Copy(io.Discard, resp.Body)
		resp.Body.Close()
		if cerr != nil {
			var ne net.Error
			if errors.As(cerr, &ne) && ne.Timeout() {
				c.close()
				return c24Resp{}, c24ErrWatchdog
			}
		}
		if resp.Close || cerr != nil || method == "CONNECT" || resp.ProtoMinor == 0 {
			c.close()
		}
		return out, nil
	}
	return c24Resp{}, fmt.Errorf("no response after retries: %v", lastErr)
}

// c24Frame builds one masked client WebSocket frame.
func c24Frame(opcode byte, payload []byte) []byte {
	mask := [4]byte{0x11, 0x22, 0x33, 0x44}
	var b []byte
	b = append(b, 0x80|opcode)
	if len(payload) < 126 {
		b = append(b, 0x80|byte(len(payload)))
	} else {
		b = append(b, 0x80|126, byte(len(payload)>>8), byte(len(payload)))
	}
	b = append(b, mask[:]...)
	for i, c := range payload {
		b = append(b, c^mask[i%4])
	}
	return b
}

func c24ReadFrame(br *bufio.Reader) []byte {
	h := make([]byte, 2)
	if _, err := io.ReadFull(br, h); err != nil {
		return nil
	}
	n := int(h[1] & 0x7f)
	if n == 126 {
		x := make([]byte, 2)
		if _, err := io.ReadFull(br, x); err != nil {
			return nil
		}
		n = int(x[0])<<8 | int(x[1])
	} else if n == 127 {
		return nil
	}
	p := make([]byte, n)
	if _, err := io.ReadFull(br, p); err != nil {
		return nil
	}
	return p
}

// ---------------------------------------------------------------- request model

type c24Req struct {
	Method    string `json:"method"`
	Target    string `json:"target"`
	Base      string `json:"base_route"`
	Kind      string `json:"spelling"`
	Pres      string `json:"token_presentation"`
	presClass int
	baseGroup int
	proto     string
	headers   []string
	body      []byte
	ctype     string
	ws        []byte // first websocket frame to send when upgraded
	upgrade   string
	Status    int      `json:"status,omitempty"`
	Calls     []string `json:"provider_calls,omitempty"`
}

func (q *c24Req) raw() []byte {
	var b bytes.Buffer
	proto := q.proto
	if proto == "" {
		proto = "HTTP/1.1"
	}
	fmt.Fprintf(&b, "%s %s %s\r\nHost: c24.test\r\nUser-Agent: verif-c24\r\n", q.Method, q.Target, proto)
	for _, h := range q.headers {
		b.WriteString(h + "\r\n")
	}
	if q.upgrade != "" {
		b.WriteString("Connection: Upgrade\r\nUpgrade: websocket\r\nSec-WebSocket-Version: 13\r\nSec-WebSocket-Key: dGhlIHNhbXBsZSBub25jZQ==\r\nSec-WebSocket-Protocol: " + q.upgrade + "\r\n")
	}
	if q.body != nil {
		fmt.Fprintf(&b, "Content-Type: %s\r\nContent-Length: %d\r\n", q.ctype, len(q.body))
	}
	b.WriteString("\r\n")
	b.Write(q.body)
	return b.Bytes()
}

type c24Cfg struct {
	Token     bool `json:"token_configured"`
	Pprof     bool `json:"pprof"`
	Dashboard bool `json:"dashboard"`
	Remote    bool `json:"remote_api"`
}

func (c c24Cfg) enabled(g int) bool {
	switch g {
	case c24Remote:
		return c.Remote
	case c24Dash:
		return c.Dashboard
	case c24Pprof:
		return c.Pprof
	}
	return false
}

type c24Srv struct {
	cfg   c24Cfg
	fake  *c24Fake
	srv   *health.Server
	cl    *c24Client
	tok   string
	hash  string
	pres  []c24Pres
	route []c24Route
}

func c24Start(cfg c24Cfg, rng *verifkit.Rand) (*c24Srv, error) {
	s := &c24Srv{cfg: cfg, fake: &c24Fake{}}
	rng.Fill(s.fake.local[:])
	rng.Fill(s.fake.other[:])
	s.tok = rng.Token(rng.Range(16, 40)) + "aZ9"
	hc := health.ServerConfig{Address: "127.0.0.1:0", ReadTimeout: 60 * time.Second, WriteTimeout: 60 * time.Second,
		EnablePprof: cfg.Pprof, EnableDashboard: cfg.Dashboard, EnableRemoteAPI: cfg.Remote}
	if cfg.Token {
		hb, err := bcrypt.GenerateFromPassword([]byte(s.tok), bcrypt.MinCost)
		if err != nil {
			return nil, err
		}
		s.hash = string(hb)
		hc.TokenHash = s.hash
	}
	s.srv = health.NewServer(hc, s.fake)
	s.srv.SetRemoteProvider(s.fake)
	s.srv.SetRouteAdvertiseTrigger(s.fake)
	s.srv.SetSleepProvider(s.fake)
	s.srv.SetRouteManageProvider(s.fake)
	s.srv.SetForwardManageProvider(s.fake)
	s.srv.SetFileBrowseProvider(s.fake)
	s.srv.SetDisplayNameManageProvider(s.fake)
	s.srv.SetShellProvider(s.fake)
	s.srv.SetICMPProvider(s.fake)
	if err := s.srv.Start(); err != nil {
		return nil, err
	}
	s.cl = &c24Client{addr: s.srv.Address().String()}
	s.pres = c24Presentations(s.tok, s.hash, rng)
	if s.hash == "" {
		s.pres = c24Presentations(s.tok, "$2a$04$abcdefghijklmnopqrstuuSomethingThatLooksLikeAHash000000", rng)
	}
	s.route = c24Routes(s.fake.local, s.fake.other)
	return s, nil
}

func (s *c24Srv) stop() {
	s.cl.close()
	s.srv.Stop()
}

var c24Methods = []string{"GET", "POST", "PUT", "HEAD", "OPTIONS", "CONNECT", "DELETE", "PATCH", "TRACE", "get"}

const c24JSON = `{"action":"list","path":"/tmp","key":"k","name":"n","network":"10.0.0.0/8"}`

// build composes a request from route spelling, method and presentation.
func (s *c24Srv) build(rt c24Route, v c24Var, method string, p c24Pres) *c24Req {
	q := &c24Req{Method: method, Base: rt.path, Kind: v.kind, Pres: p.name, presClass: p.class, baseGroup: rt.group}
	q.headers = append(q.headers, p.headers...)
	qs := append([]string(nil), p.query...)
	if strings.HasSuffix(rt.path, "/profile") || strings.HasSuffix(rt.path, "/trace") {
		qs = append(qs, "seconds=1") // bounds the cost if the CPU profiler / tracer is ever reached
	}
	t := v.target
	if method == "CONNECT" && !strings.HasPrefix(t, "/") {
		t = "/" + t // absolute-form is not used with CONNECT
	}
	if len(qs) > 0 {
		t += "?" + strings.Join(qs, "&")
	}
	q.Target = t
	switch method {
	case "POST", "PUT", "PATCH":
		q.body, q.ctype = []byte(c24JSON), "application/json"
	}
	return q
}

// rich: requests that, when authorised, reach every provider (upload, download, websockets ...).
func (s *c24Srv) rich(p c24Pres) []*c24Req {
	o := s.fake.other.String()
	mk := func(method, pth string, g int) *c24Req {
		q := s.build(c24Route{pth, g}, c24Var{"rich", pth}, method, p)
		return q
	}
	var out []*c24Req
	var mp bytes.Buffer
	mw := multipart.NewWriter(&mp)
	mw.WriteField("path", "/tmp/verif-c24-upload")
	fw, _ := mw.CreateFormFile("file", "f.txt")
	fw.Write([]byte("hello"))
	mw.Close()
	up := mk("POST", "/agents/"+o+"/file/upload", c24Remote)
	up.body, up.ctype = mp.Bytes(), mw.FormDataContentType()
	out = append(out, up)
	dl := mk("POST", "/agents/"+o+"/file/download", c24Remote)
	dl.body = []byte(`{"path":"/tmp/x"}`)
	out = append(out, dl)
	sh := mk("GET", "/agents/"+o+"/shell", c24Remote)
	sh.upgrade = "muti-shell"
	meta, _ := shell.EncodeMeta(&shell.ShellMeta{Command: "id"})
	sh.ws = c24Frame(2, meta)
	out = append(out, sh)
	ic := mk("GET", "/agents/"+o+"/icmp", c24Remote)
	ic.upgrade = "muti-icmp"
	ic.ws = c24Frame(1, []byte(`{"type":"init","dest_ip":"127.0.0.1"}`))
	out = append(out, ic)
	h10 := mk("POST", "/sleep", c24Remote)
	h10.proto = "HTTP/1.0"
	out = append(out, h10)
	if len(p.query) == 0 { // these request-targets cannot carry a query
		opt := mk("OPTIONS", "*", c24None)
		opt.Target = "*"
		opt.Kind = "options-star"
		out = append(out, opt)
		ca := mk("CONNECT", "c24.test:443", c24None)
		ca.Target = "c24.test:443"
		ca.Kind = "connect-authority"
		out = append(out, ca)
	}
	return out
}

func c24StatusClass(st int) string {
	switch {
	case st == 101:
		return "upgraded-101"
	case st >= 200 && st < 300:
		return "answered-2xx"
	case st >= 300 && st < 400:
		return "answered-3xx"
	case st == 401:
		return "401"
	case st == 404:
		return "answered-404"
	case st >= 400 && st < 500:
		return "answered-4xx"
	}
	return "answered-5xx"
}

type c24Run struct {
	r       *verifkit.R
	s       *c24Srv
	phase   string
	ci      int
	bad     int
	aborted bool
}

// exec sends q and judges it. Returns false when the case must be abandoned.
func (x *c24Run) exec(q *c24Req) bool {
	r, s := x.r, x.s
	if x.bad > 25 {
		// a server this broken floods the report (and, with profiling endpoints open, the clock)
		if !x.aborted {
			x.aborted = true
			r.Add("configs_abandoned_after_many_violations", 1)
		}
		return false
	}
	if s.cfg.Pprof && (!s.cfg.Token || q.presClass != c24Invalid) {
		// an authorised request to the enabled CPU profiler / tracer runs for >= 1 s and is not
		// judged by anything: not sent
		if d, _, ok := c24Decode(strings.ToUpper(q.Method), q.Target); ok {
			if c := c24Clean(d); c == "/debug/pprof/profile" || c == "/debug/pprof/trace" || d == "/debug/pprof/profile" || d == "/debug/pprof/trace" {
				r.Add("skipped_authorised_profiler_requests", 1)
				return true
			}
		}
	}
	m := s.fake.mark()
	resp, err := s.cl.do(strings.ToUpper(q.Method), q.raw(), q.ws)
	if err != nil {
		r.Inconclusive(fmt.Sprintf("transport: %s %q: %v", q.Method, q.Target, err))
		return false
	}
	calls := s.fake.since(m)
	q.Status, q.Calls = resp.status, calls
	r.Add("requests", 1)
	r.Add("provider_calls", len(calls))
	bad := func(key, msg string) {
		x.bad++
		r.Violation(key, x.phase, x.ci, msg, map[string]any{"config": s.cfg, "request": q, "raw_head": string(bytes.SplitN(q.raw(), []byte("\r\n\r\n"), 2)[0]), "body": string(resp.body)})
	}
	dec, rawPath, wellformed := c24Decode(strings.ToUpper(q.Method), q.Target)
	nonStats := 0
	for _, c := range calls {
		if c != "IsRunning" && c != "Stats" {
			nonStats++
		}
	}
	judged := false
	parserRejected := resp.status == 400 && bytes.HasPrefix(resp.body, []byte("400 Bad Request"))
	passedAuth := !s.cfg.Token
	if s.cfg.Token {
		switch q.presClass {
		case c24Invalid:
			judged = true
			switch {
			case dec == "*" || (strings.ToUpper(q.Method) == "CONNECT" && dec == ""):
				// not addressed to an endpoint: only "no action" is stated
				if len(calls) > 0 {
					bad("noauth:provider-call", fmt.Sprintf("request without valid token triggered provider calls %v", calls))
				} else {
					r.Add("unauth_no_endpoint_no_action", 1)
				}
			case wellformed && c24ExemptSet[dec]:
				if nonStats > 0 {
					bad("exempt-path:action-without-token", fmt.Sprintf("request without valid token on an exempt path triggered %v", calls))
				} else {
					r.Add("unauth_exempt_served", 1)
				}
				if q.Kind == "canonical" && q.Method == "GET" && resp.status == 401 {
					bad("exempt-path:demands-token", "a probe/splash/logo endpoint answered 401")
				}
			default:
				switch {
				case resp.status == 401:
					r.Add("unauth_401", 1)
				case !wellformed && resp.status == 400, parserRejected:
					r.Add("unauth_rejected_by_http_parser", 1)
				default:
					bad("noauth:"+c24StatusClass(resp.status), fmt.Sprintf("no valid token, decoded path %q is not exempt, but the server answered %d instead of 401", dec, resp.status))
				}
				if len(calls) > 0 {
					bad("noauth:provider-call", fmt.Sprintf("request without valid token triggered provider calls %v", calls))
				}
			}
		case c24Valid:
			judged = true
			if resp.status == 401 {
				bad("auth:valid-token-rejected", "the configured token was presented ("+q.Pres+") and the server answered 401")
			} else {
				passedAuth = true
				r.Add("authorised_passed", 1)
			}
		default:
			if resp.status == 401 {
				if len(calls) > 0 {
					judged = true
					bad("noauth:provider-call", fmt.Sprintf("401 answered but provider calls %v were made", calls))
				}
				r.Add("ambiguous_401", 1)
			} else {
				passedAuth = true
				r.Add("ambiguous_passed", 1)
			}
		}
	}
	// gating
	if passedAuth && wellformed && dec != "*" {
		cl := c24Clean(dec)
		gd, gc := c24Resolve(dec), c24Resolve(cl)
		lower := strings.ToLower(rawPath)
		canonical := dec == cl && !strings.Contains(lower, "%2f") && !strings.Contains(lower, "%5c")
		isGroup := func(g int) bool { return g == c24Remote || g == c24Dash || g == c24Pprof }
		switch {
		case canonical && isGroup(gd) && !s.cfg.enabled(gd):
			judged = true
			if resp.status != 404 {
				bad("gating:disabled-"+c24GroupName[gd]+"-"+c24StatusClass(resp.status), fmt.Sprintf("group %s is disabled, path %q must answer 404, got %d", c24GroupName[gd], dec, resp.status))
			} else {
				r.Add("disabled_404", 1)
			}
			if len(calls) > 0 {
				bad("gating:disabled-"+c24GroupName[gd]+"-provider-call", fmt.Sprintf("group %s is disabled, path %q triggered %v", c24GroupName[gd], dec, calls))
			}
		case isGroup(q.baseGroup) && !s.cfg.enabled(q.baseGroup):
			judged = true
			reach := func(g int) bool { return g == c24Exempt || (isGroup(g) && s.cfg.enabled(g)) }
			if !reach(gd) && !reach(gc) {
				if resp.status >= 200 && resp.status < 300 || resp.status == 101 {
					bad("gating:variant-of-disabled-"+c24GroupName[q.baseGroup]+"-"+c24StatusClass(resp.status), fmt.Sprintf("spelling %q of a route of disabled group %s was served (%d)", q.Target, c24GroupName[q.baseGroup], resp.status))
				}
				if len(calls) > 0 {
					bad("gating:variant-of-disabled-"+c24GroupName[q.baseGroup]+"-provider-call", fmt.Sprintf("spelling %q of a route of disabled group %s triggered %v", q.Target, c24GroupName[q.baseGroup], calls))
				}
				r.Add("disabled_variant_refused", 1)
			}
			for g := c24Remote; g <= c24Pprof; g++ {
				if s.cfg.enabled(g) {
					continue
				}
				for _, c := range calls {
					if c24Exclusive[g][c] {
						bad("gating:disabled-"+c24GroupName[g]+"-provider-call", fmt.Sprintf("group %s is disabled but %s was called for %q", c24GroupName[g], c, q.Target))
					}
				}
			}
		}
		if len(calls) > 0 {
			r.Add("authorised_requests_with_provider_calls", 1)
		}
	}
	r.Add("status_"+c24StatusClass(resp.status), 1)
	r.Eval(fmt.Sprintf("%+v|%s|%s|%s|%s", s.cfg, q.Method, q.Base, q.Kind, q.Pres), judged)
	if judged && r.NeedSample() && (q.Kind == "exempt-dotdot" || q.Kind == "rich") {
		r.Sample(map[string]any{"config": s.cfg, "request": q})
	}
	return true
}

func TestVerif_C24(t *testing.T) {
	r := verifkit.Start(t, "C24", "http")
	r.Rule("one raw HTTP/1.x request (flag combination x token configured x route x path spelling x method x token presentation) against a started health.Server with call-recording fake providers; " +
		"non-trivial = the reference model constrains the answer (no valid token, or valid token whose acceptance is checked, or a route/spelling of a disabled group); distinct by (config, method, route, spelling, presentation)")
	r.Assume("provider calls observed between writing a request and completely reading its response on the only connection of that server belong to that request")
	quick := r.Quick()
	seen := map[string]bool{}
	var smu sync.Mutex
	r.ParCases("cfg", 16, 8, func(ci int, rng *verifkit.Rand) {
		cfg := c24Cfg{Token: ci&8 != 0, Pprof: ci&1 != 0, Dashboard: ci&2 != 0, Remote: ci&4 != 0}
		s, err := c24Start(cfg, rng)
		if err != nil {
			r.Inconclusive("cannot start server: " + err.Error())
			return
		}
		defer s.stop()
		x := &c24Run{r: r, s: s, phase: "cfg", ci: ci}
		pres := s.pres
		if !cfg.Token {
			// presentations are irrelevant without a configured token: keep three
			pres = []c24Pres{s.pres[0], s.pres[1], s.pres[4]}
		}
		// 1. canonical routes: methods x presentations (quick: all methods for the four basic
		// presentations, GET/POST + one random method for the others; thorough: full cross product)
		for _, rt := range s.route {
			for pi, p := range pres {
				ms := c24Methods
				if quick && pi > 4 {
					ms = []string{"GET", "POST", c24Methods[2+rng.Intn(len(c24Methods)-2)]}
				}
				for _, m := range ms {
					if !x.exec(s.build(rt, c24Var{"canonical", rt.path}, m, p)) {
						return
					}
				}
			}
		}
		// 2. rich requests under every presentation
		for _, p := range pres {
			for _, q := range s.rich(p) {
				if !x.exec(q) {
					return
				}
			}
		}
		// 3. spellings
		rm := func() string { return c24Methods[rng.Intn(len(c24Methods))] }
		for _, rt := range s.route {
			for _, v := range c24Variants(rt.path, s.tok)[1:] {
				var todo []*c24Req
				if quick && rng.Bool() {
					continue // quick: every configuration takes its own random half of the spellings
				}
				if quick {
					if cfg.Token {
						inv := pres[0]
						if rng.Bool() {
							for inv = pres[rng.Intn(len(pres))]; inv.class != c24Invalid; inv = pres[rng.Intn(len(pres))] {
							}
						}
						todo = append(todo, s.build(rt, v, rm(), inv), s.build(rt, v, rm(), pres[1+rng.Intn(2)]))
					} else {
						todo = append(todo, s.build(rt, v, rm(), pres[0]))
					}
					if rng.Chance(1, 3) {
						todo = append(todo, s.build(rt, v, rm(), pres[rng.Intn(len(pres))]))
					}
				} else {
					ps := []c24Pres{pres[0], pres[1], pres[2%len(pres)]}
					for k := 0; k < 5 && cfg.Token; k++ {
						ps = append(ps, pres[rng.Intn(len(pres))])
					}
					for _, m := range c24Methods {
						for _, p := range ps {
							todo = append(todo, s.build(rt, v, m, p))
						}
					}
				}
				for _, q := range todo {
					if !x.exec(q) {
						return
					}
				}
			}
		}
		// 4. stacked random mutations of spellings
		nr := 400
		if !quick {
			nr = 20000
		}
		for i := 0; i < nr; i++ {
			rt := s.route[rng.Intn(len(s.route))]
			vs := c24Variants(rt.path, s.tok)
			v := vs[rng.Intn(len(vs))]
			if !strings.HasPrefix(v.target, "/") {
				continue
			}
			vs2 := c24Variants(v.target, s.tok)
			v2 := vs2[rng.Intn(len(vs2))]
			v2.kind = v.kind + "+" + v2.kind
			if strings.Count(v2.target, "://") > 1 {
				continue
			}
			if !x.exec(s.build(rt, v2, c24Methods[rng.Intn(len(c24Methods))], pres[rng.Intn(len(pres))])) {
				return
			}
		}
		smu.Lock()
		for _, c := range s.fake.since(0) {
			seen[c] = true
		}
		smu.Unlock()
	})
	var blind []string
	for _, m := range c24AllMethods {
		if !seen[m] {
			blind = append(blind, m)
		}
	}
	sort.Strings(blind)
	if len(blind) > 0 && r.Wanted("cfg", 15) && r.Wanted("cfg", 7) {
		r.Inconclusive(fmt.Sprintf("monitor validation: provider methods never observed on authorised traffic: %v", blind))
	}
	r.Set("provider_methods_observed", len(seen))
	c24Conc(r)
	r.Require("unauth_401", 5000)
	r.Require("unauth_exempt_served", 100)
	r.Require("authorised_passed", 2000)
	r.Require("disabled_404", 1000)
	r.Require("disabled_variant_refused", 500)
	r.Require("authorised_requests_with_provider_calls", 300)
	r.Require("conc_accepted", 100)
	r.Require("conc_refused", 100)
}

// c24Conc: many connections at once against one server (token cache under concurrency).
// Each accepted POST /sleep makes exactly one TriggerSleep call; refused ones none.
func c24Conc(r *verifkit.R) {
	per := r.N(100, 3000)
	r.Cases("conc", 2, func(ci int, rng *verifkit.Rand) {
		s, err := c24Start(c24Cfg{Token: true, Pprof: ci == 0, Dashboard: true, Remote: true}, rng)
		if err != nil {
			r.Inconclusive("cannot start server: " + err.Error())
			return
		}
		defer s.stop()
		var wg sync.WaitGroup
		var mu sync.Mutex
		accepted, refused, wrong := 0, 0, 0
		var witness []string
		for g := 0; g < 12; g++ {
			wg.Add(1)
			gr := rng.Fork()
			go func() {
				defer wg.Done()
				cl := &c24Client{addr: s.cl.addr}
				defer cl.close()
				for i := 0; i < per; i++ {
					p := s.pres[gr.Intn(len(s.pres))]
					if p.class == c24Ambiguous {
						continue
					}
					q := s.build(c24Route{"/sleep", c24Remote}, c24Var{"canonical", "/sleep"}, "POST", p)
					resp, err := cl.do("POST", q.raw(), nil)
					if err != nil {
						r.Inconclusive("transport (conc): " + err.Error())
						return
					}
					mu.Lock()
					switch {
					case p.class == c24Valid && resp.status == 200:
						accepted++
					case p.class == c24Invalid && resp.status == 401:
						refused++
					default:
						wrong++
						if len(witness) < 5 {
							witness = append(witness, fmt.Sprintf("%s -> %d", p.name, resp.status))
						}
					}
					mu.Unlock()
				}
			}()
		}
		wg.Wait()
		calls := 0
		for _, c := range s.fake.since(0) {
			if c == "TriggerSleep" {
				calls++
			}
		}
		r.Add("conc_accepted", accepted)
		r.Add("conc_refused", refused)
		if wrong > 0 {
			r.Violation("concurrent:wrong-status", "conc", ci, fmt.Sprintf("%d concurrent requests got the wrong answer: %v", wrong, witness), nil)
		}
		if calls != accepted {
			r.Violation("concurrent:action-count-mismatch", "conc", ci, fmt.Sprintf("%d requests were accepted but TriggerSleep ran %d times", accepted, calls), nil)
		}
		r.Eval(fmt.Sprintf("conc-%d-%d-%d", ci, accepted, refused), accepted > 0 && refused > 0)
	})
}

// TestVerif_C24Race runs only the concurrent phase (registered as a -race part).
func TestVerif_C24Race(t *testing.T) {
	r := verifkit.Start(t, "C24", "race")
	r.Rule("12 connections send POST /sleep with valid and invalid token presentations to one server at the same time; " +
		"non-trivial = both accepted and refused requests were observed; every answer and the number of TriggerSleep calls are judged")
	c24Conc(r)
	r.Require("conc_accepted", 100)
	r.Require("conc_refused", 100)
}
