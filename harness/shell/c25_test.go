package shell_test

// C25 — the remote shell runs only authorised commands; concurrent sessions never exceed
// the configured maximum.
//
// Ground truth of "a process started": the test process' PATH is a temp directory that only
// holds marker scripts; a marker appends its argv to a per-request file (request id arrives
// in the environment) before doing anything else. A request is driven either through the
// real shell.Handler (X25519 handshake + encrypted META frame, streaming and PTY mode) or
// through the exported Executor.NewSession/NewPTYSession. The oracle is a reference model of
// the property text; it only ever says "must not start" — whatever the model allows may or
// may not start (no liveness judgement).
//
// Concurrency: (a) 16 goroutines hammer AcquireSession/ReleaseSession, a harness counter that
// is incremented only *after* a successful acquire and decremented *before* the release is a
// sound lower bound of the slots held; (b) 16 goroutines open "hold" sessions through the
// Handler in bursts, interleaved with error-path churn (commands that pass validation but
// fail to start, bad work dir, PTY failures, rejected requests, racing closes); sessions
// acknowledged and not yet closed by the harness are certainly alive, their number must
// never exceed MaxSessions.

import (
	"context"
	"encoding/json"
	"fmt"
	"io"
	"log/slog"
	"os"
	"path/filepath"
	"runtime"
	"sort"
	"strings"
	"sync"
	"sync/atomic"
	"testing"
	"time"

	"golang.org/x/crypto/bcrypt"

	"github.com/postalsys/muti-metroo/internal/crypto"
	"github.com/postalsys/muti-metroo/internal/identity"
	"github.com/postalsys/muti-metroo/internal/shell"
	"github.com/postalsys/muti-metroo/internal/verifkit"
)

// the metacharacters the executor documents as rejected (executor.go: dangerousArgPattern)
const c25Metas = ";&|$`(){}[]<>\\!*?~"

// marker command universe: chosen so that prefix / suffix / substring / case relations exist
var c25Names = []string{"run", "runx", "xrun", "ru", "un", "RUN", "Run", "go", "gox", "info", "inf", "nfo",
	"run-info", "run.sh", "a", "b", "ab", "r"}

type c25Env struct {
	bin    string // PATH of the test process: marker scripts only
	logDir string
	seq    atomic.Uint64
	hasPTY bool
}

func c25Setup(t *testing.T) *c25Env {
	root := t.TempDir()
	e := &c25Env{bin: filepath.Join(root, "bin"), logDir: filepath.Join(root, "log")}
	for _, d := range []string{e.bin, e.logDir, filepath.Join(e.bin, "sub")} {
		if err := os.MkdirAll(d, 0o755); err != nil {
			t.Fatal(err)
		}
	}
	script := "#!/bin/sh\n" +
		"f=\"" + e.logDir + "/${VERIF_REQ:-noreq}\"\n" +
		"t=0; [ -t 0 ] && t=1\n" +
		"{ printf 'START %s %s PWD=<%s> TTY=<%s>' \"$0\" \"$#\" \"$(pwd -P)\" \"$t\"; for a in \"$@\"; do printf ' <%s>' \"$a\"; done; printf '\\n'; } >> \"$f\"\n" +
		"if [ -n \"$VERIF_HOLD\" ]; then read _x; fi\n" +
		"exit 0\n"
	for _, n := range c25Names {
		if err := os.WriteFile(filepath.Join(e.bin, n), []byte(script), 0o755); err != nil {
			t.Fatal(err)
		}
	}
	t.Setenv("PATH", e.bin)
	return e
}

func (e *c25Env) logged(req string) bool {
	_, err := os.Stat(filepath.Join(e.logDir, req))
	return err == nil
}

// ---------------------------------------------------------------- fake stream writer

type c25Stream struct {
	msgs   [][]byte
	closed chan struct{}
	once   sync.Once
}

type c25Writer struct {
	mu sync.Mutex
	st map[uint64]*c25Stream
}

func newC25Writer() *c25Writer { return &c25Writer{st: map[uint64]*c25Stream{}} }

func (w *c25Writer) reg(id uint64) *c25Stream {
	w.mu.Lock()
	defer w.mu.Unlock()
	s := &c25Stream{closed: make(chan struct{})}
	w.st[id] = s
	return s
}

func (w *c25Writer) drop(id uint64) { w.mu.Lock(); delete(w.st, id); w.mu.Unlock() }

func (w *c25Writer) WriteStreamData(_ identity.AgentID, id uint64, data []byte, _ uint8) error {
	w.mu.Lock()
	if s := w.st[id]; s != nil && len(s.msgs) < 4 {
		s.msgs = append(s.msgs, append([]byte(nil), data...))
	}
	w.mu.Unlock()
	return nil
}

func (w *c25Writer) WriteStreamClose(_ identity.AgentID, id uint64) error {
	w.mu.Lock()
	s := w.st[id]
	w.mu.Unlock()
	if s != nil {
		s.once.Do(func() { close(s.closed) })
	}
	return nil
}

func (w *c25Writer) first(id uint64) []byte {
	w.mu.Lock()
	defer w.mu.Unlock()
	if s := w.st[id]; s != nil && len(s.msgs) > 0 {
		return s.msgs[0]
	}
	return nil
}

// ---------------------------------------------------------------- one request

type c25Req struct {
	Mode     string   `json:"mode"` // handler-stream | handler-pty | direct-stream | direct-pty
	Enabled  bool     `json:"enabled"`
	WL       []string `json:"whitelist"`
	PwSet    bool     `json:"password_configured"`
	PwKind   string   `json:"password_presented"`
	Cmd      string   `json:"command"`
	Args     []string `json:"args"`
	WorkDir  string   `json:"work_dir,omitempty"`
	Class    string   `json:"class"`
	Must     string   `json:"model_must_reject,omitempty"`
	Outcome  string   `json:"outcome,omitempty"`
	ReqID    string   `json:"req"`
	pwPlain  string
	pwHash   string
	pwSent   string
	maxSess  int
	hold     bool
	interact bool
	hashBad  bool   // password_hash is configured but is not a parseable bcrypt hash
	HashKind string `json:"password_hash_shape,omitempty"`
	rawMeta  []byte // hand-built META document (optional keys really absent); nil = EncodeMeta
	Doc      string `json:"meta_document,omitempty"`
}

var c25Peer = identity.AgentID{0xc2, 0x5}

func c25Logger() *slog.Logger { return slog.New(slog.NewTextHandler(io.Discard, nil)) }

// c25Model returns the reason the property forbids a process for this request ("" = may start).
func c25Model(q *c25Req) string {
	if !q.Enabled {
		return "disabled"
	}
	if q.PwSet && q.hashBad {
		return "unusable-password-hash" // a hash is configured but nothing can match it: nothing may start
	}
	if q.PwSet && q.pwSent != q.pwPlain {
		return "bad-password"
	}
	for _, w := range q.WL {
		if w == "*" {
			return ""
		}
	}
	if strings.Contains(q.Cmd, "/") {
		return "path-command" // not a base name, whether or not the operator listed it
	}
	in := false
	for _, w := range q.WL {
		if w == q.Cmd {
			in = true
		}
	}
	if !in {
		return "not-whitelisted"
	}
	for _, a := range q.Args {
		if strings.ContainsAny(a, c25Metas) {
			return "metachar-arg"
		}
	}
	for _, a := range q.Args {
		if strings.HasPrefix(a, "/") {
			return "absolute-arg"
		}
	}
	return ""
}

type c25Sess struct {
	req    string
	id     uint64
	stream *c25Stream
	key    *crypto.SessionKey
	acked  bool
	errMsg string
}

// c25Open performs the handshake and sends the encrypted META frame. It returns after the
// handler answered (handleMetadata is synchronous: ACK or ERROR is written before it returns).
func c25Open(h *shell.Handler, w *c25Writer, e *c25Env, q *c25Req) (*c25Sess, error) {
	id := e.seq.Add(1)
	s := &c25Sess{id: id, req: q.ReqID, stream: w.reg(id)}
	priv, pub, err := crypto.GenerateEphemeralKeypair()
	if err != nil {
		return nil, err
	}
	reqID := id ^ 0x5a5a0000
	code, rpub := h.HandleStreamOpen(c25Peer, id, reqID, q.interact, pub)
	if code != 0 {
		s.errMsg = fmt.Sprintf("open refused code=%d", code)
		return s, nil
	}
	shared, err := crypto.ComputeECDH(priv, rpub)
	if err != nil {
		return nil, err
	}
	s.key = crypto.DeriveSessionKey(shared, reqID, pub, rpub, true)
	meta := &shell.ShellMeta{Command: q.Cmd, Args: q.Args, WorkDir: q.WorkDir, Password: q.pwSent,
		Env: map[string]string{"VERIF_REQ": q.ReqID}}
	if q.hold {
		meta.Env["VERIF_HOLD"] = "1"
	}
	if q.interact {
		meta.TTY = &shell.TTYSettings{Rows: 24, Cols: 80, Term: "dumb"}
	}
	mb, err := shell.EncodeMeta(meta)
	if err != nil {
		return nil, err
	}
	if q.rawMeta != nil {
		mb = shell.EncodeMessage(shell.MsgMeta, q.rawMeta)
	}
	ct, err := s.key.Encrypt(mb)
	if err != nil {
		return nil, err
	}
	h.HandleStreamData(c25Peer, id, ct, 0)
	fm := w.first(id)
	if fm == nil {
		s.errMsg = "no answer"
		return s, nil
	}
	pt, err := s.key.Decrypt(fm)
	if err != nil {
		return nil, fmt.Errorf("cannot decrypt handler answer: %w", err)
	}
	mt, payload, err := shell.DecodeMessage(pt)
	if err != nil {
		return nil, err
	}
	switch mt {
	case shell.MsgAck:
		ack, err := shell.DecodeAck(payload)
		if err != nil {
			return nil, err
		}
		s.acked = ack.Success
		s.errMsg = ack.Error
	case shell.MsgError:
		if se, err := shell.DecodeError(payload); err == nil {
			s.errMsg = se.Message
		}
	default:
		s.errMsg = "unexpected first message " + shell.MsgTypeName(mt)
	}
	return s, nil
}

const c25Watchdog = 90 * time.Second

// c25Run executes one request with a fresh executor and reports (started, detail, inconclusive reason).
func c25Run(e *c25Env, q *c25Req) (started bool, detail string, inconcl string) {
	cfg := shell.Config{Enabled: q.Enabled, Whitelist: q.WL, PasswordHash: q.pwHash, MaxSessions: q.maxSess}
	ex := shell.NewExecutor(cfg)
	switch q.Mode {
	case "handler-stream", "handler-pty":
		w := newC25Writer()
		h := shell.NewHandler(ex, w, c25Logger())
		s, err := c25Open(h, w, e, q)
		if err != nil {
			return false, "", "harness: " + err.Error()
		}
		if s.acked {
			select {
			case <-s.stream.closed:
			case <-time.After(c25Watchdog):
				h.HandleStreamClose(s.id)
				return true, "acked", "watchdog: acknowledged session did not end"
			}
		}
		h.HandleStreamClose(s.id)
		if s.acked {
			return true, "ack", ""
		}
		return false, s.errMsg, ""
	default:
		meta := &shell.ShellMeta{Command: q.Cmd, Args: q.Args, WorkDir: q.WorkDir, Password: q.pwSent,
			Env: map[string]string{"VERIF_REQ": q.ReqID}}
		if q.Mode == "direct-pty" {
			meta.TTY = &shell.TTYSettings{Rows: 24, Cols: 80, Term: "dumb"}
			p, err := ex.NewPTYSession(context.Background(), meta)
			if err != nil {
				return false, err.Error(), ""
			}
			done := make(chan struct{})
			go func() { p.Wait(); close(done) }()
			select {
			case <-done:
			case <-time.After(c25Watchdog):
				p.Close()
				ex.ReleaseSession()
				return true, "pty", "watchdog: PTY session did not end"
			}
			p.Close()
			ex.ReleaseSession()
			return true, "pty-started", ""
		}
		s, err := ex.NewSession(context.Background(), meta)
		if err != nil {
			return false, err.Error(), ""
		}
		if err := s.Start(); err != nil {
			// like the handler: a session that never started is not Closed (Close would wait 5 s
			// for an exit that cannot come), only its slot is returned
			ex.ReleaseSession()
			return false, err.Error(), ""
		}
		select {
		case <-s.Done():
		case <-time.After(c25Watchdog):
			s.Close()
			ex.ReleaseSession()
			return true, "session", "watchdog: session did not end"
		}
		s.Close()
		ex.ReleaseSession()
		return true, "session-started", ""
	}
}

// ---------------------------------------------------------------- generators

func c25Flip(s string) string {
	b := []byte(s)
	for i, c := range b {
		switch {
		case c >= 'a' && c <= 'z':
			b[i] = c - 32
		case c >= 'A' && c <= 'Z':
			b[i] = c + 32
		}
	}
	return string(b)
}

func c25Benign(rng *verifkit.Rand) string {
	const al = "abcdefghijklmnopqrstuvwxyz0123456789-_=.,:@%+/ '\"#^"
	n := rng.Range(0, 10)
	b := make([]byte, 0, n+2)
	for i := 0; i < n; i++ {
		c := al[rng.Intn(len(al))]
		if i == 0 && c == '/' {
			c = '.'
		}
		b = append(b, c)
	}
	return string(b)
}

func c25BenignArgs(rng *verifkit.Rand) []string {
	n := rng.Intn(5)
	out := make([]string, 0, n)
	for i := 0; i < n; i++ {
		switch rng.Intn(8) {
		case 0:
			out = append(out, "--file=/etc/passwd")
		case 1:
			out = append(out, "./x/../y")
		case 2:
			out = append(out, "-"+rng.Token(2))
		case 3:
			out = append(out, "line1\nline2\ttab")
		default:
			out = append(out, c25Benign(rng))
		}
	}
	return out
}

func c25Subset(rng *verifkit.Rand, n int) []string {
	idx := make([]int, len(c25Names))
	for i := range idx {
		idx[i] = i
	}
	verifkit.Shuffle(rng, idx)
	out := make([]string, 0, n)
	for _, i := range idx[:n] {
		out = append(out, c25Names[i])
	}
	return out
}

// near-miss commands of a whitelisted name that exist as executables in PATH
func c25Near(rng *verifkit.Rand, w string, wl []string) string {
	cands := []string{}
	in := map[string]bool{}
	for _, x := range wl {
		in[x] = true
	}
	for _, n := range c25Names {
		if in[n] {
			continue
		}
		if strings.Contains(n, w) || strings.Contains(w, n) || strings.EqualFold(n, w) {
			cands = append(cands, n)
		}
	}
	for _, n := range c25Names { // anything else not whitelisted, less often
		if !in[n] && rng.Chance(1, 6) {
			cands = append(cands, n)
		}
	}
	extra := []string{w + " ", " " + w, w + "\n", w + ";", w + "*", "", ".", w + ".", strings.ToUpper(w), w + w, w[:len(w)-1]}
	if rng.Chance(1, 4) || len(cands) == 0 {
		cands = append(cands, extra[rng.Intn(len(extra))])
	}
	c := cands[rng.Intn(len(cands))]
	if in[c] {
		return w + "__"
	}
	return c
}

func (e *c25Env) gen(rng *verifkit.Rand, ci int) *c25Req {
	q := &c25Req{Enabled: true, ReqID: fmt.Sprintf("q%d_%s", ci, rng.Token(6)), maxSess: rng.Intn(3)}
	modes := []string{"handler-stream", "handler-stream", "handler-stream", "handler-pty", "direct-stream", "direct-pty"}
	q.Mode = modes[rng.Intn(len(modes))]
	if !e.hasPTY && strings.HasSuffix(q.Mode, "pty") {
		q.Mode = "handler-stream"
	}
	q.interact = q.Mode == "handler-pty"
	// password configuration
	if rng.Chance(1, 2) {
		q.PwSet = true
		q.pwPlain = rng.Token(rng.Range(6, 30)) + "aZ"
		hb, err := bcrypt.GenerateFromPassword([]byte(q.pwPlain), bcrypt.MinCost)
		if err != nil {
			panic(err)
		}
		q.pwHash = string(hb)
		q.pwSent, q.PwKind = q.pwPlain, "correct"
	} else if rng.Chance(1, 3) {
		q.pwSent, q.PwKind = rng.Token(8), "unneeded"
	} else {
		q.PwKind = "none"
	}
	// default: a plain whitelist and a whitelisted command with benign args
	q.WL = c25Subset(rng, rng.Range(1, 4))
	q.Cmd = q.WL[rng.Intn(len(q.WL))]
	q.Args = c25BenignArgs(rng)
	// process creation costs ~100 ms on the shared sandbox: keep the share of requests that really
	// start a marker near 10 %, the rest of the budget goes to requests the model forbids
	classes := []string{"valid", "valid", "disabled", "bad-password", "bad-password", "not-whitelisted", "not-whitelisted", "not-whitelisted",
		"path-command", "path-command", "metachar-arg", "metachar-arg", "metachar-arg", "absolute-arg", "absolute-arg",
		"wildcard", "empty-whitelist", "odd-whitelist", "soup", "soup", "unusable-hash", "unusable-hash", "other-password-hash"}
	q.Class = classes[rng.Intn(len(classes))]
	switch q.Class {
	case "valid":
	case "disabled":
		q.Enabled = false
		if rng.Bool() {
			q.WL = []string{"*"}
		}
	case "bad-password":
		if !q.PwSet {
			q.PwSet = true
			q.pwPlain = rng.Token(rng.Range(6, 30)) + "aZ"
			hb, _ := bcrypt.GenerateFromPassword([]byte(q.pwPlain), bcrypt.MinCost)
			q.pwHash = string(hb)
		}
		p := q.pwPlain
		kinds := []struct{ k, v string }{
			{"empty", ""}, {"random", rng.Token(len(p))}, {"extended", p + "x"}, {"prefix", p[:len(p)-1]},
			{"short-prefix", p[:3]}, {"case-flipped", c25Flip(p)}, {"the-hash", q.pwHash}, {"leading-space", " " + p},
			{"trailing-space", p + " "}, {"doubled", p + p}, {"suffix", p[1:]},
		}
		k := kinds[rng.Intn(len(kinds))]
		q.pwSent, q.PwKind = k.v, k.k
		if rng.Chance(1, 3) {
			q.WL = []string{"*"}
		}
	case "unusable-hash", "other-password-hash":
		// configuration dimension: password_hash is set but is not a bcrypt hash of anything the peer
		// can present (malformed), or is a good hash of another password. Everything else is valid.
		p := rng.Token(rng.Range(6, 30)) + "aZ"
		hb, _ := bcrypt.GenerateFromPassword([]byte(p), bcrypt.MinCost)
		q.PwSet, q.pwPlain, q.pwHash = true, p, string(hb)
		if q.Class == "unusable-hash" {
			q.hashBad = true
			q.HashKind, q.pwHash = c25BadHash(rng, string(hb), p)
		}
		sent := []struct{ k, v string }{{"the-intended-plaintext", p}, {"random", rng.Token(10)}, {"empty", ""},
			{"the-configured-string", q.pwHash}, {"one-char", "x"}}
		if q.Class == "other-password-hash" {
			sent = sent[1:]
		}
		k := sent[rng.Intn(len(sent))]
		q.pwSent, q.PwKind = k.v, k.k
		if rng.Chance(1, 4) {
			q.WL = []string{"*"}
		}
	case "not-whitelisted":
		q.Cmd = c25Near(rng, q.WL[rng.Intn(len(q.WL))], q.WL)
	case "path-command":
		w := q.WL[rng.Intn(len(q.WL))]
		forms := []string{e.bin + "/" + w, "./" + w, "../" + filepath.Base(e.bin) + "/" + w, "sub/../" + w, "/" + w, w + "/", "//" + e.bin[1:] + "/" + w, "/bin/sh"}
		q.Cmd = forms[rng.Intn(len(forms))]
		q.WorkDir = e.bin
		if rng.Chance(1, 3) { // the operator (wrongly) listed a path: still not a base name
			q.WL = append(q.WL, q.Cmd)
		}
	case "metachar-arg":
		if len(q.Args) == 0 {
			q.Args = []string{c25Benign(rng)}
		}
		var i int
		switch rng.Intn(3) {
		case 0:
			i = 0
		case 1:
			i = len(q.Args) - 1
		default:
			i = rng.Intn(len(q.Args))
		}
		a := strings.TrimLeft(q.Args[i], "/")
		m := string(c25Metas[rng.Intn(len(c25Metas))])
		switch rng.Intn(4) {
		case 0:
			a = m + a
		case 1:
			a = a + m
		case 2:
			p := rng.Intn(len(a) + 1)
			a = a[:p] + m + a[p:]
		default:
			a = m
		}
		q.Args[i] = a
		for j := range q.Args { // keep the other args from being absolute paths: single reason
			if j != i && strings.HasPrefix(q.Args[j], "/") {
				q.Args[j] = "." + q.Args[j]
			}
		}
	case "absolute-arg":
		abs := []string{"/etc/passwd", "/", e.bin + "/x", "//x", "/.", "/a b", "/-"}
		a := abs[rng.Intn(len(abs))]
		if len(q.Args) == 0 {
			q.Args = []string{a}
		} else {
			q.Args[rng.Intn(len(q.Args))] = a
		}
	case "wildcard":
		q.WL = []string{"*"}
		if rng.Bool() {
			q.WL = append(c25Subset(rng, 1), "*")
		}
		switch rng.Intn(3) {
		case 0:
			q.Cmd = e.bin + "/run"
		case 1:
			q.Cmd = c25Names[rng.Intn(len(c25Names))]
		default:
			q.Cmd = "nonexistent-" + rng.Token(3)
		}
		q.Args = append(q.Args, "$(x);&|`y`", "/abs")
	case "empty-whitelist":
		q.WL = []string{}
		if rng.Bool() {
			q.WL = nil
		}
		q.Cmd = c25Names[rng.Intn(len(c25Names))]
	case "odd-whitelist":
		// entries that would match if the whitelist were treated as glob / regexp / trimmed / case-folded / substring
		odd := [][]string{{"ru*"}, {"r?n"}, {"run|go"}, {".*"}, {"[a-z]*"}, {""}, {" run", "run "}, {"RUN"}, {"run,go"}, {"runx xrun"}, {"**"}, {"?"}}
		q.WL = append([]string(nil), odd[rng.Intn(len(odd))]...)
		cmds := []string{"run", "ru", "r", "go", "a", "xrun"}
		q.Cmd = cmds[rng.Intn(len(cmds))]
		for _, w := range q.WL {
			if w == q.Cmd {
				q.Cmd = "b"
			}
		}
	case "soup":
		q.Enabled = rng.Chance(5, 6)
		if rng.Chance(1, 4) {
			q.WL = []string{"*"}
		}
		if rng.Bool() {
			q.Cmd = c25Names[rng.Intn(len(c25Names))]
		}
		if rng.Chance(1, 3) {
			q.Cmd = e.bin + "/" + q.Cmd
		}
		n := rng.Intn(4)
		q.Args = q.Args[:0]
		const al = "ab/.-_ ;&|$`(){}[]<>\\!*?~'\"\n"
		for i := 0; i < n; i++ {
			b := make([]byte, rng.Intn(6))
			for k := range b {
				b[k] = al[rng.Intn(len(al))]
			}
			q.Args = append(q.Args, string(b))
		}
		if q.PwSet && rng.Chance(1, 3) {
			q.pwSent, q.PwKind = q.pwPlain+"!", "extended"
		}
	}
	q.Must = c25Model(q)
	return q
}

// ---------------------------------------------------------------- test

func TestVerif_C25(t *testing.T) {
	if runtime.GOOS == "windows" {
		t.Skip("unix only")
	}
	r := verifkit.Start(t, "C25", "unit")
	r.Rule("input: one generated shell request (config x whitelist shape x command spelling x argv x password x entry point) against a fresh real Executor/Handler, " +
		"ground truth = marker script log + ACK; non-trivial = the reference model forbids a process (oracle constrains the outcome) or a marker process was really observed starting; " +
		"distinct by request content. conc: one burst/churn round or one acquire-hammer run, non-trivial = at least one slot refused while at least one was held")
	r.Assume("the marker scripts in the private PATH are the only executables a bare command name can resolve to; /bin/sh exists")
	e := c25Setup(t)
	e.hasPTY = c25ProbePTY(e)
	r.Set("pty_available", e.hasPTY)
	if !e.hasPTY {
		r.Assume("no usable PTY in this sandbox: the PTY entry points are not exercised")
	}

	var mu sync.Mutex
	verdicts := map[string]*c25Req{}
	n := r.N(1800, 40000)
	t0 := time.Now()
	r.ParCases("input", n, 8, func(ci int, rng *verifkit.Rand) {
		q := e.gen(rng, ci)
		mu.Lock()
		verdicts[q.ReqID] = q
		mu.Unlock()
		started, detail, inc := c25Run(e, q)
		if inc != "" {
			r.Inconclusive(inc)
		}
		logged := e.logged(q.ReqID)
		q.Outcome = fmt.Sprintf("started=%v logged=%v %s", started, logged, detail)
		r.Add("requests", 1)
		r.Add("mode_"+q.Mode, 1)
		if q.Must != "" {
			if started || logged {
				r.Violation(q.Must+":process-started", "input", ci,
					fmt.Sprintf("the property forbids a process for this request (%s) but one was started: %s", q.Must, q.Outcome), q)
			} else {
				r.Add("forbidden_and_refused", 1)
				r.Add("refused_"+q.Must, 1)
			}
		} else {
			if started && logged {
				r.Add("allowed_and_marker_started", 1)
			} else if started {
				r.Add("allowed_and_started_nonmarker", 1)
				if c25IsMarker(e, q) {
					r.Inconclusive("monitor: a marker command was acknowledged but wrote no log (" + q.Cmd + ")")
				}
			} else {
				r.Add("allowed_but_not_started", 1)
			}
		}
		nontriv := q.Must != "" || (started && logged)
		r.Eval(fmt.Sprintf("%s|%v|%v|%s|%q|%q|%s|%s", q.Mode, q.Enabled, q.WL, q.PwKind, q.Cmd, q.Args, q.WorkDir, q.Class), nontriv)
		if r.NeedSample() && nontriv && ci%7 == 3 {
			r.Sample(q)
		}
	})
	// late sweep: a forbidden request's marker may have logged after its case was judged
	if ents, err := os.ReadDir(e.logDir); err == nil {
		for _, en := range ents {
			mu.Lock()
			q := verdicts[en.Name()]
			mu.Unlock()
			if q == nil {
				if en.Name() == "noreq" {
					r.Inconclusive("monitor: a marker process ran without the request id in its environment")
				}
				continue
			}
			if q.Must != "" {
				r.Violation(q.Must+":process-started", "input", -1, "late log entry of a forbidden request", q)
			}
		}
		r.Add("marker_logs", len(ents))
	}
	r.Require("forbidden_and_refused", 500)
	r.Require("allowed_and_marker_started", 100)
	for _, k := range []string{"unusable-password-hash", "disabled", "bad-password", "not-whitelisted", "path-command", "metachar-arg", "absolute-arg"} {
		r.Require("refused_"+k, 30)
	}

	r.Set("wall_input_s", time.Since(t0).Seconds())
	t0 = time.Now()
	c25Acquire(r)
	r.Set("wall_acquire_s", time.Since(t0).Seconds())
	t0 = time.Now()
	c25Conc(r, e)
	r.Set("wall_conc_s", time.Since(t0).Seconds())
	t0 = time.Now()
	c25Histories(r, e)
	r.Set("wall_history_s", time.Since(t0).Seconds())
	r.Require("hist_requests", 200)
	r.Require("hist_wrong_password_repeated", 40)
	r.Require("hist_refused_after_decoding_with_good_password", 60)
	r.Require("hist_password_key_absent", 40)
	r.Require("hist_forbidden_and_refused", 100)
	r.Require("hist_marker_started", 8)
	r.Require("acquire_granted", 1000)
	r.Require("acquire_refused", 100)
	r.Require("conc_sessions_live", 30)
	r.Require("conc_refused_at_max", 50)
}

func c25IsMarker(e *c25Env, q *c25Req) bool {
	for _, n := range c25Names {
		if q.Cmd == n || q.Cmd == e.bin+"/"+n {
			return true
		}
	}
	return false
}

// c25ProbePTY: can a PTY session be started here at all?
func c25ProbePTY(e *c25Env) bool {
	ex := shell.NewExecutor(shell.Config{Enabled: true, Whitelist: []string{"run"}})
	p, err := ex.NewPTYSession(context.Background(), &shell.ShellMeta{Command: "run",
		Env: map[string]string{"VERIF_REQ": "probe-pty"}, TTY: &shell.TTYSettings{Rows: 24, Cols: 80}})
	if err != nil {
		return false
	}
	done := make(chan struct{})
	go func() { p.Wait(); close(done) }()
	ok := false
	select {
	case <-done:
		ok = true
	case <-time.After(20 * time.Second):
	}
	p.Close()
	ex.ReleaseSession()
	os.Remove(filepath.Join(e.logDir, "probe-pty"))
	return ok
}

// ---------------------------------------------------------------- concurrency: slot counter

func c25Acquire(r *verifkit.R) {
	iters := r.N(20000, 400000)
	r.Cases("acquire", 4, func(ci int, rng *verifkit.Rand) {
		max := ci + 1
		ex := shell.NewExecutor(shell.Config{Enabled: true, MaxSessions: max})
		var held atomic.Int64
		var granted, refused, over, counterOver atomic.Int64
		var wg sync.WaitGroup
		for g := 0; g < 16; g++ {
			wg.Add(1)
			gr := rng.Fork()
			go func() {
				defer wg.Done()
				for i := 0; i < iters; i++ {
					if err := ex.AcquireSession(); err != nil {
						refused.Add(1)
						continue
					}
					// counted only after the grant, uncounted before the release: a sound lower
					// bound of the slots held right now
					if h := held.Add(1); h > int64(max) {
						over.Add(1)
					}
					granted.Add(1)
					if a := ex.ActiveSessions(); a > max {
						counterOver.Add(1)
					}
					if gr.Chance(1, 4) {
						runtime.Gosched()
					}
					held.Add(-1)
					ex.ReleaseSession()
				}
			}()
		}
		wg.Wait()
		if over.Load() > 0 {
			r.Violation("max-sessions:slots-held-exceed-max", "acquire", ci,
				fmt.Sprintf("MaxSessions=%d: %d times more than %d slots were held at the same instant", max, over.Load(), max), nil)
		}
		if counterOver.Load() > 0 {
			r.Violation("max-sessions:counter-exceeds-max", "acquire", ci,
				fmt.Sprintf("MaxSessions=%d: ActiveSessions() reported more than the maximum %d times", max, counterOver.Load()), nil)
		}
		r.Add("acquire_granted", int(granted.Load()))
		r.Add("acquire_refused", int(refused.Load()))
		r.Eval(fmt.Sprintf("acquire-max%d-%d", max, granted.Load()), granted.Load() > 0 && refused.Load() > 0)
	})
}

// ---------------------------------------------------------------- concurrency: sessions through the Handler

func c25Conc(r *verifkit.R, e *c25Env) {
	rounds := r.N(6, 80)
	const G = 16
	r.Cases("conc", 4, func(ci int, rng *verifkit.Rand) {
		max := ci + 1
		pw := "pw-" + rng.Token(8)
		hb, _ := bcrypt.GenerateFromPassword([]byte(pw), bcrypt.MinCost)
		usePw := ci%2 == 1
		cfg := shell.Config{Enabled: true, Whitelist: []string{"run", "go", "missing", "a"}, MaxSessions: max}
		if usePw {
			cfg.PasswordHash = string(hb)
		}
		ex := shell.NewExecutor(cfg)
		w := newC25Writer()
		h := shell.NewHandler(ex, w, c25Logger())
		var lmu sync.Mutex
		live := map[uint64]*c25Sess{} // acknowledged hold sessions the harness has not started to close
		var liveN atomic.Int64
		var exceeded atomic.Int64
		bad := func(where string) {
			r.Violation("max-sessions:live-sessions-exceed-max", "conc", ci,
				fmt.Sprintf("MaxSessions=%d: %s", max, where), nil)
		}
		mk := func(gr *verifkit.Rand, hold bool) *c25Req {
			q := &c25Req{Enabled: true, Cmd: []string{"run", "go", "a"}[gr.Intn(3)], hold: hold,
				ReqID: fmt.Sprintf("c%d_%s", ci, gr.Token(8)), Args: []string{"x"}}
			if usePw {
				q.pwSent = pw
			}
			if e.hasPTY && gr.Chance(1, 4) {
				q.interact = true
			}
			return q
		}
		openHold := func(gr *verifkit.Rand) {
			s, err := c25Open(h, w, e, mk(gr, true))
			if err != nil {
				r.Inconclusive("harness: " + err.Error())
				return
			}
			if !s.acked {
				w.drop(s.id)
				if strings.Contains(s.errMsg, "max sessions") {
					r.Add("conc_refused_at_max", 1)
				} else {
					r.Add("conc_refused_other", 1)
				}
				return
			}
			lmu.Lock()
			live[s.id] = s
			lmu.Unlock()
			r.Add("conc_sessions_live", 1)
			if n := liveN.Add(1); n > int64(max) {
				exceeded.Add(1)
			}
		}
		closeOne := func(s *c25Sess, twice bool) {
			// let the marker come up first (see the note in churn about closing right after the ACK)
			for dl := time.Now().Add(c25Watchdog); !e.logged(s.req) && time.Now().Before(dl); {
				time.Sleep(time.Millisecond)
			}
			// uncount first: from here on the session may or may not still hold its slot
			liveN.Add(-1)
			if twice {
				var wg sync.WaitGroup
				for k := 0; k < 2; k++ {
					wg.Add(1)
					go func() { defer wg.Done(); h.HandleStreamClose(s.id) }()
				}
				wg.Wait()
			} else {
				h.HandleStreamClose(s.id)
			}
			w.drop(s.id)
		}
		churn := func(gr *verifkit.Rand) {
			for k := 0; k < 2; k++ {
				q := mk(gr, false)
				kind := gr.Intn(8)
				switch kind {
				case 0: // passes validation, takes a slot, fails to start (not in PATH)
					q.Cmd = "missing"
				case 1: // passes validation, takes a slot, fails to start (bad work dir)
					q.WorkDir = "/nonexistent-" + gr.Token(4)
				case 2:
					q.Cmd, q.interact = "missing", e.hasPTY || gr.Bool()
				case 3:
					q.pwSent = "wrong"
				case 4:
					q.Args = []string{"$(x)"}
				case 5:
					q.Cmd = "runx"
				default: // a session that ends by itself; sometimes the peer's close races the exit
				}
				s, err := c25Open(h, w, e, q)
				if err != nil {
					r.Inconclusive("harness: " + err.Error())
					return
				}
				r.Add("conc_churn_ops", 1)
				if s.acked {
					r.Add("conc_churn_started", 1)
					if gr.Bool() {
						// peer close racing the natural exit: wait until the marker has logged (it
						// exits right after), then close. (Closing immediately after the ACK can
						// stall 5 s inside Session.Close when it wins ss.mu before the pumps'
						// first iteration — a liveness wart outside this property.)
						dl := time.Now().Add(c25Watchdog)
						for !e.logged(q.ReqID) && time.Now().Before(dl) {
							time.Sleep(time.Millisecond)
						}
						h.HandleStreamClose(s.id)
					} else {
						select {
						case <-s.stream.closed:
						case <-time.After(c25Watchdog):
							r.Inconclusive("watchdog: churn session did not end")
						}
						if gr.Bool() {
							h.HandleStreamClose(s.id)
						}
					}
				} else if kind <= 2 && !strings.Contains(s.errMsg, "max sessions") {
					r.Add("conc_start_failures", 1)
				}
				w.drop(s.id)
			}
		}
		par := func(fn func(g int, gr *verifkit.Rand)) {
			start := make(chan struct{})
			var wg sync.WaitGroup
			for g := 0; g < G; g++ {
				wg.Add(1)
				gr := rng.Fork()
				go func(g int) {
					defer wg.Done()
					<-start
					fn(g, gr)
				}(g)
			}
			close(start)
			wg.Wait()
		}
		check := func(where string) {
			lmu.Lock()
			n := len(live)
			lmu.Unlock()
			if n > max {
				bad(fmt.Sprintf("%d acknowledged sessions are alive at the same time (%s)", n, where))
			}
			refusedNow := r.Counter("conc_refused_at_max")
			r.Eval(fmt.Sprintf("conc-max%d-%s-live%d-ref%d", max, where, n, refusedNow), n > 0 && refusedNow > 0)
		}
		for round := 0; round < rounds; round++ {
			tt := time.Now()
			lap := func(n string) { r.Add("ms_"+n, int(time.Since(tt).Milliseconds())); tt = time.Now() }
			par(func(g int, gr *verifkit.Rand) { openHold(gr) })
			lap("burst1")
			check(fmt.Sprintf("round %d after burst", round))
			// close a random subset concurrently (keeps some sessions alive across rounds)
			lmu.Lock()
			var victims []*c25Sess
			ids := make([]uint64, 0, len(live))
			for id := range live {
				ids = append(ids, id)
			}
			sort.Slice(ids, func(i, j int) bool { return ids[i] < ids[j] })
			for _, id := range ids {
				if rng.Chance(1, 2) {
					victims = append(victims, live[id])
					delete(live, id)
				}
			}
			lmu.Unlock()
			var cw sync.WaitGroup
			for _, v := range victims {
				cw.Add(1)
				tw := rng.Chance(1, 3)
				go func(v *c25Sess) { defer cw.Done(); closeOne(v, tw) }(v)
			}
			cw.Wait()
			lap("close")
			// error-path churn while the survivors are held, then fill up again
			par(func(g int, gr *verifkit.Rand) { churn(gr) })
			lap("churn")
			par(func(g int, gr *verifkit.Rand) { openHold(gr) })
			lap("burst2")
			check(fmt.Sprintf("round %d after churn+burst", round))
			if a := ex.ActiveSessions(); a > max {
				r.Violation("max-sessions:counter-exceeds-max", "conc", ci, fmt.Sprintf("ActiveSessions()=%d > MaxSessions=%d", a, max), nil)
			}
		}
		if exceeded.Load() > 0 {
			bad(fmt.Sprintf("%d times the number of acknowledged, unclosed sessions passed the maximum", exceeded.Load()))
		}
		lmu.Lock()
		rest := make([]*c25Sess, 0, len(live))
		for _, s := range live {
			rest = append(rest, s)
		}
		live = map[uint64]*c25Sess{}
		lmu.Unlock()
		for _, s := range rest {
			closeOne(s, false)
		}
		h.Close()
	})
}

// ---------------------------------------------------------------- request histories on ONE handler

// c25Doc builds a META document by hand: a key that is not in m is really absent from the JSON.
func c25Doc(m map[string]any) []byte {
	keys := make([]string, 0, len(m))
	for k := range m {
		keys = append(keys, k)
	}
	sort.Strings(keys)
	var sb strings.Builder
	sb.WriteByte('{')
	for i, k := range keys {
		if i > 0 {
			sb.WriteByte(',')
		}
		kb, _ := json.Marshal(k)
		vb, _ := json.Marshal(m[k])
		sb.Write(kb)
		sb.WriteByte(':')
		sb.Write(vb)
	}
	sb.WriteByte('}')
	return []byte(sb.String())
}

func (e *c25Env) logLine(req string) string {
	b, _ := os.ReadFile(filepath.Join(e.logDir, req))
	return string(b)
}

func c25Field(line, name string) (string, bool) {
	i := strings.Index(line, name+"=<")
	if i < 0 {
		return "", false
	}
	rest := line[i+len(name)+2:]
	j := strings.IndexByte(rest, '>')
	if j < 0 {
		return "", false
	}
	return rest[:j], true
}

type c25Hist struct {
	r      *verifkit.R
	e      *c25Env
	phase  string
	ci     int
	h      *shell.Handler
	w      *c25Writer
	ex     *shell.Executor
	pwSet  bool
	pw     string
	wl     []string
	cwd    string
	hashBad  bool
	hashKind string
	serial bool // one goroutine drives this handler: requests without "env" can be attributed
	// round 5 (hist-repeat): the next step is of this kind (-1: PRNG choice); a forced kind 8
	// presents forcePw again instead of a fresh wrong password
	forceKind int
	forcePw   string
	lastWrong string
	mu     sync.Mutex
	held   []*c25Sess
	trail  []string
}

func (x *c25Hist) note(s string) {
	x.mu.Lock()
	x.trail = append(x.trail, s)
	if len(x.trail) > 12 {
		x.trail = x.trail[len(x.trail)-12:]
	}
	x.mu.Unlock()
}

func (x *c25Hist) witness(q *c25Req) map[string]any {
	x.mu.Lock()
	defer x.mu.Unlock()
	return map[string]any{"request": q, "previous_requests_on_this_handler": append([]string(nil), x.trail...)}
}

// step sends one generated request on the shared handler and judges it.
func (x *c25Hist) step(rng *verifkit.Rand, si int) {
	r, e := x.r, x.e
	// process creation is expensive here: 2 of 16 kinds start a process when a password is configured
	kind := []int{0, 7, 2, 2, 3, 3, 4, 5, 6, 8, 9, 10, 10, 10, 10, 13}[rng.Intn(16)]
	if x.forceKind >= 0 {
		kind = x.forceKind
	}
	if kind == 13 { // close a held session
		x.mu.Lock()
		var s *c25Sess
		if len(x.held) > 0 {
			i := rng.Intn(len(x.held))
			s = x.held[i]
			x.held = append(x.held[:i], x.held[i+1:]...)
		}
		x.mu.Unlock()
		if s != nil {
			for dl := time.Now().Add(c25Watchdog); !e.logged(s.req) && time.Now().Before(dl); {
				time.Sleep(time.Millisecond)
			}
			x.h.HandleStreamClose(s.id)
			x.w.drop(s.id)
		}
		return
	}
	q := &c25Req{Enabled: true, Mode: "handler-history", WL: x.wl, PwSet: x.pwSet, pwPlain: x.pw, hashBad: x.hashBad, HashKind: x.hashKind,
		ReqID: fmt.Sprintf("h%d_%d_%s", x.ci, si, rng.Token(6)), Cmd: []string{"run", "go", "a"}[rng.Intn(3)]}
	doc := map[string]any{}
	// password: right one by default (key absent when none is configured, half of the time)
	q.pwSent, q.PwKind = x.pw, "correct"
	if !x.pwSet && rng.Bool() {
		q.pwSent, q.PwKind = "", "key-absent"
	}
	q.Args = []string{"x" + rng.Token(3)}
	wantDir := x.cwd
	ttyKey := false
	// optional keys of an otherwise ordinary request
	optional := func() {
		switch rng.Intn(4) {
		case 0:
			q.WorkDir = e.bin + "/sub"
			wantDir = q.WorkDir
		case 1:
			q.WorkDir = e.bin
			wantDir = q.WorkDir
		}
		if rng.Chance(1, 4) {
			doc["timeout"] = []int{0, 3600, 86400}[rng.Intn(3)]
		}
		if rng.Chance(1, 3) {
			q.interact = rng.Chance(2, 3)
			ttyKey = true
		} else if rng.Chance(1, 4) {
			q.interact = true // interactive stream without "tty": a plain streaming session
		}
	}
	refusedKind := false
	switch kind {
	case 0: // ordinary request, ends by itself
		optional()
	case 2:
		q.Class, q.Cmd, refusedKind = "not-whitelisted", []string{"runx", "xrun", "RUN", "b"}[rng.Intn(4)], true
		optional()
	case 3:
		q.Class, refusedKind = "metachar-arg", true
		q.Args = append(q.Args, "a"+string(c25Metas[rng.Intn(len(c25Metas))]))
		optional()
	case 4:
		q.Class, refusedKind = "absolute-arg", true
		q.Args = append(q.Args, "/etc/passwd")
		optional()
	case 5: // passes validation, takes a slot, cannot start
		q.Class, refusedKind = "bad-work-dir", true
		optional()
		q.WorkDir = "/nonexistent-" + rng.Token(4)
	case 6:
		q.Class, q.Cmd, refusedKind = "missing-command", "missing", true
		optional()
	case 7: // keeps a slot until closed; later ordinary requests may be refused at the maximum
		q.hold = true
	case 8:
		q.Class = "bad-password"
		q.pwSent, q.PwKind = "wrong-"+rng.Token(5), "wrong"
		if x.forceKind == 8 && x.forcePw != "" {
			q.pwSent, q.PwKind = x.forcePw, "wrong-repeated"
			r.Add("hist_wrong_password_repeated", 1)
		}
		x.mu.Lock()
		x.lastWrong = q.pwSent
		x.mu.Unlock()
	case 9:
		q.Class = "bad-password"
		q.pwSent, q.PwKind = "", "empty-string"
		doc["password"] = ""
	default: // 10: the peer sends no password key at all, and as little else as possible
		q.Class = "bad-password"
		q.pwSent, q.PwKind = "", "key-absent"
		if rng.Bool() {
			q.Args = nil
		}
		r.Add("hist_password_key_absent", 1)
	}
	if !x.pwSet && q.Class == "bad-password" {
		q.Class = "no-password-needed"
	}
	doc["command"] = q.Cmd
	if q.Args != nil {
		doc["args"] = q.Args
	}
	if q.pwSent != "" {
		doc["password"] = q.pwSent
	}
	if q.WorkDir != "" {
		doc["work_dir"] = q.WorkDir
	}
	if ttyKey {
		doc["tty"] = map[string]any{"rows": 24, "cols": 80, "term": "dumb"}
	}
	noEnv := x.serial && !q.hold && kind >= 10 && rng.Bool()
	logName := q.ReqID
	if noEnv {
		logName = "noreq"
		os.Remove(filepath.Join(e.logDir, "noreq"))
	} else {
		env := map[string]string{"VERIF_REQ": q.ReqID}
		if q.hold {
			env["VERIF_HOLD"] = "1"
		}
		doc["env"] = env
	}
	q.rawMeta = c25Doc(doc)
	q.Doc = string(q.rawMeta)
	q.Must = c25Model(q)
	s, err := c25Open(x.h, x.w, e, q)
	if err != nil {
		r.Inconclusive("harness: " + err.Error())
		return
	}
	r.Add("hist_requests", 1)
	if s.acked && !q.hold {
		select {
		case <-s.stream.closed:
		case <-time.After(c25Watchdog):
			r.Inconclusive("watchdog: history session did not end")
		}
	}
	if s.acked && q.hold {
		for dl := time.Now().Add(c25Watchdog); !e.logged(logName) && time.Now().Before(dl); {
			time.Sleep(time.Millisecond)
		}
	}
	logged := e.logged(logName)
	line := e.logLine(logName)
	if noEnv {
		os.Remove(filepath.Join(e.logDir, "noreq"))
	}
	q.Outcome = fmt.Sprintf("acked=%v logged=%v err=%q", s.acked, logged, s.errMsg)
	switch {
	case q.Must != "" && (s.acked || logged):
		r.Violation(q.Must+":process-started", x.phase, x.ci,
			fmt.Sprintf("request %d of a history on one handler: the property forbids a process (%s) but one was started: %s", si, q.Must, q.Outcome), x.witness(q))
	case q.Must != "":
		r.Add("hist_forbidden_and_refused", 1)
	case s.acked && logged:
		r.Add("hist_marker_started", 1)
		// the process must run with THIS request's optional settings
		if got, ok := c25Field(line, "PWD"); ok && got != wantDir {
			r.Violation("request-isolation:work-dir-not-from-this-request", x.phase, x.ci,
				fmt.Sprintf("request %d asked for work_dir %q (process cwd %q expected) but the process ran in %q", si, q.WorkDir, wantDir, got), x.witness(q))
		}
		wantTTY := "0"
		if q.interact && ttyKey {
			wantTTY = "1"
		}
		if got, ok := c25Field(line, "TTY"); ok && got != wantTTY && e.hasPTY {
			r.Violation("request-isolation:tty-not-from-this-request", x.phase, x.ci,
				fmt.Sprintf("request %d (interactive=%v, tty key present=%v) ran with stdin-is-a-tty=%s", si, q.interact, ttyKey, got), x.witness(q))
		}
	default:
		if refusedKind && !s.acked {
			r.Add("hist_refused_after_decoding_with_good_password", 1)
		} else if strings.Contains(s.errMsg, "max sessions") {
			r.Add("hist_refused_at_max", 1)
		}
	}
	if q.Must != "" && q.Class != "bad-password" && q.pwSent == x.pw && !s.acked {
		r.Add("hist_refused_after_decoding_with_good_password", 1)
	}
	x.note(fmt.Sprintf("#%d %s -> %s", si, q.Doc, q.Outcome))
	if s.acked && q.hold {
		x.mu.Lock()
		x.held = append(x.held, s)
		x.mu.Unlock()
	} else {
		x.h.HandleStreamClose(s.id)
		x.w.drop(s.id)
	}
	r.Eval(fmt.Sprintf("%s|%d|%d|%s", x.phase, x.ci, si, q.Doc), q.Must != "" || (s.acked && logged))
	if q.Must != "" && q.PwKind == "key-absent" && r.NeedSample() {
		r.Sample(x.witness(q))
	}
}

func c25NewHist(r *verifkit.R, e *c25Env, phase string, ci int, rng *verifkit.Rand, pw, hash string, serial bool) *c25Hist {
	x := &c25Hist{r: r, e: e, phase: phase, ci: ci, w: newC25Writer(), serial: serial, forceKind: -1,
		wl: []string{"run", "go", "a", "missing"}}
	cfg := shell.Config{Enabled: true, Whitelist: x.wl, MaxSessions: rng.Intn(3)}
	if rng.Chance(7, 8) {
		x.pwSet, x.pw = true, pw
		cfg.PasswordHash = hash
		if rng.Chance(1, 5) { // this handler's password_hash is unusable: nothing may start on it
			x.hashBad = true
			x.hashKind, cfg.PasswordHash = c25BadHash(rng, hash, pw)
		}
	}
	x.ex = shell.NewExecutor(cfg)
	x.h = shell.NewHandler(x.ex, x.w, c25Logger())
	wd, _ := os.Getwd()
	if p, err := filepath.EvalSymlinks(wd); err == nil {
		wd = p
	}
	x.cwd = wd
	return x
}

func (x *c25Hist) finish() {
	x.mu.Lock()
	held := x.held
	x.held = nil
	x.mu.Unlock()
	for _, s := range held {
		for dl := time.Now().Add(c25Watchdog); !x.e.logged(s.req) && time.Now().Before(dl); {
			time.Sleep(time.Millisecond)
		}
		x.h.HandleStreamClose(s.id)
	}
	x.h.Close()
}

// c25Histories: PRNG request sequences on one handler. The password is the same for every
// history of the run, so state that leaks from one request (or one handler) into a later
// request is presented to a verifier that would accept it. "hist" drives each handler from a
// single goroutine, "hist-par" from four.
func c25Histories(r *verifkit.R, e *c25Env) {
	pw := "hist-" + r.CaseRand("hist-pw", 0).Token(14) + "aZ"
	hb, err := bcrypt.GenerateFromPassword([]byte(pw), bcrypt.MinCost)
	if err != nil {
		r.Inconclusive("harness: " + err.Error())
		return
	}
	if p, err := filepath.EvalSymlinks(e.bin); err == nil {
		e.bin = p
	}
	steps := 24
	r.Cases("hist", r.N(10, 400), func(ci int, rng *verifkit.Rand) {
		x := c25NewHist(r, e, "hist", ci, rng, pw, string(hb), true)
		defer x.finish()
		for si := 0; si < steps; si++ {
			x.step(rng, si)
		}
	})
	// round 5: credentials presented again. On one handler: PRNG prefix, an ordinary request with
	// the right password, a wrong password, then the SAME wrong password 1..3 more times, with
	// PRNG steps in between in half of the cases; then the right one again. Every step is judged
	// by the same rule as everywhere else (a wrong password never starts a process).
	r.Cases("hist-repeat", r.N(24, 400), func(ci int, rng *verifkit.Rand) {
		x := c25NewHist(r, e, "hist-repeat", ci, rng, pw, string(hb), true)
		defer x.finish()
		si := 0
		do := func(kind int, pw string) {
			x.forceKind, x.forcePw = kind, pw
			x.step(rng, si)
			x.forceKind, x.forcePw = -1, ""
			si++
		}
		for k := rng.Intn(3); k > 0; k-- {
			do(-1, "")
		}
		if rng.Chance(4, 5) {
			do(0, "")
		}
		do(8, "")
		wrong := x.lastWrong
		for k := rng.Range(1, 3); k > 0; k-- {
			if rng.Chance(1, 4) {
				do([]int{2, 9, 10}[rng.Intn(3)], "")
			}
			do(8, wrong)
		}
		do(0, "")
		do(8, wrong)
	})
	r.Cases("hist-par", r.N(2, 60), func(ci int, rng *verifkit.Rand) {
		x := c25NewHist(r, e, "hist-par", ci, rng, pw, string(hb), false)
		defer x.finish()
		var wg sync.WaitGroup
		for g := 0; g < 4; g++ {
			wg.Add(1)
			gr := rng.Fork()
			go func(g int) {
				defer wg.Done()
				for si := 0; si < steps*2/3; si++ {
					x.step(gr, g*1000+si)
				}
			}(g)
		}
		wg.Wait()
	})
}

// c25BadHash: shapes of a configured password_hash that is not a usable bcrypt hash, derived from
// a genuine hash h of plaintext p. None of them can be verified against any password.
func c25BadHash(rng *verifkit.Rand, h, p string) (kind, v string) {
	rest := h[7:] // after "$2a$04$"
	shapes := []struct{ k, v string }{
		{"truncated-1", h[:1]}, {"truncated-7", h[:7]}, {"truncated-20", h[:20]}, {"truncated-40", h[:40]}, {"truncated-58", h[:58]},
		{"md5crypt", "$1$" + rest[:8] + "$" + rest[8:30]},
		{"sha512crypt", "$6$rounds=5000$" + rest[:16] + "$" + rest + rest[:26]},
		{"apr1", "$apr1$" + rest[:8] + "$" + rest[8:30]},
		{"argon2id", "$argon2id$v=19$m=65536,t=3,p=4$c29tZXNhbHQ$" + rest[:43]},
		{"version-3a", "$3a$04$" + rest}, {"no-dollar", "2a$04$" + rest},
		{"cost-00", "$2a$00$" + rest}, {"cost-03", "$2a$03$" + rest}, {"cost-32", "$2a$32$" + rest}, {"cost-99", "$2a$99$" + rest},
		{"cost-nondigit", "$2a$x4$" + rest},
		{"non-base64-salt", h[:10] + "!!**" + h[14:]},
		{"the-plaintext", p}, {"leading-space", " " + h}, {"junk-80", strings.Repeat("Ab3", 27)}, {"single-char", "x"},
		{"sha256-hex", "5e884898da28047151d0e56f8dc6292773603d0d6aabbdd62a11ef721d1542d8"},
	}
	sh := shapes[rng.Intn(len(shapes))]
	return sh.k, sh.v
}
