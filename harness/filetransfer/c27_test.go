package filetransfer_test

// C27 — extracting an uploaded directory archive never creates, modifies, links or deletes
// anything outside the destination directory, whatever the archive contains.
//
// Monitor: a sandbox <root>/{dest, outside/..., CANARYNAME_top.txt, destX/...}; a snapshot of
// everything under <root> except the subtree <root>/dest (names, type+mode, size, content,
// mtime, link count, symlink targets) is taken before and after every call of the real
// filetransfer.UntarDirectory(archive, <root>/dest). Oracle: the two snapshots are equal.
//
// Workload: (1) EXHAUSTIVE depth-first enumeration of all archives of up to 3 (thorough: 4)
// entries over a small alphabet of (type, name, link target) triples which contains lexical
// traversal, links that are lexically inside but resolve outside once an earlier link is in
// place, and names that run through symlinks already present in dest; an archive whose
// extraction returned an error is not extended (UntarDirectory stops at the first failing
// entry, so every extension behaves identically). (1b) the same enumeration over a second
// alphabet (33 variants): symlink targets that pass THROUGH a link made by an earlier entry
// (lexically inside dest, really outside; dangling or live), and regular / directory / hard-link
// / symlink entries whose name EQUALS such a link or a dangling link already present in dest.
// (2) PRNG archives of 4..8 entries over a richer alphabet on three pre-populations of dest;
// link targets are also derived from the names of earlier entries plus ../. segments and names
// are re-used from earlier links.

import (
	"archive/tar"
	"bytes"
	"compress/gzip"
	"fmt"
	"os"
	"path/filepath"
	"strings"
	"sync"
	"testing"

	"github.com/postalsys/muti-metroo/internal/filetransfer"
	"github.com/postalsys/muti-metroo/internal/verifkit"
)

type c27Entry struct {
	Type   string `json:"type"` // reg dir sym hard other
	Name   string `json:"name"`
	Target string `json:"target,omitempty"`
	Mode   int64  `json:"mode,omitempty"`
}

func (e c27Entry) String() string {
	if e.Type == "sym" || e.Type == "hard" {
		return fmt.Sprintf("%s %s -> %s", e.Type, e.Name, e.Target)
	}
	return e.Type + " " + e.Name
}

const (
	c27Canary1   = "CANARYNAME_1.txt"
	c27Canary2   = "CANARYNAME_2.txt"
	c27CanaryTop = "CANARYNAME_top.txt"
)

// c27Box is one reusable sandbox. prepop: 0 = dest does not exist, 1 = dest holds symlinks
// p -> ../outside (directory), q -> ../CANARYNAME_top.txt (file), a regular file f and a real
// directory d with the symlink d/l -> ../../outside, and two DANGLING symlinks whose real targets
// are outside dest: dg -> ../outside/missing.txt and d/dg2 -> ../../missing_top.txt,
// 2 = as 1 plus h, a hard link to ../outside/CANARYNAME_1.txt.
type c27Box struct {
	base   string // parent under which roots are created
	n      int
	root   string
	dest   string
	prepop int
	snap   ftSnap
}

func (b *c27Box) rebuild(prepop int) {
	if b.root != "" {
		ftRestorePerms(b.root)
		os.RemoveAll(b.root)
	}
	b.n++
	b.prepop = prepop
	b.root = filepath.Join(b.base, fmt.Sprintf("r%d", b.n))
	b.dest = filepath.Join(b.root, "dest")
	ftMustMkdir(filepath.Join(b.root, "outside", "sub"))
	ftMustMkdir(filepath.Join(b.root, "destX"))
	ftMustWrite(filepath.Join(b.root, "outside", c27Canary1), "CANARY-CONTENT-one", 0o640)
	ftMustWrite(filepath.Join(b.root, "outside", "sub", c27Canary2), "CANARY-CONTENT-two", 0o600)
	ftMustWrite(filepath.Join(b.root, c27CanaryTop), "CANARY-CONTENT-top", 0o644)
	ftMustWrite(filepath.Join(b.root, "destX", "CANARYNAME_x.txt"), "CANARY-CONTENT-x", 0o644)
	b.fillDest()
	var err error
	b.snap, err = ftSnapshot(b.root, []string{b.dest}, nil)
	if err != nil {
		panic("harness snapshot: " + err.Error())
	}
}

func (b *c27Box) fillDest() {
	if b.prepop == 0 {
		return
	}
	ftMustMkdir(b.dest)
	ftMustSymlink("../outside", filepath.Join(b.dest, "p"))
	ftMustSymlink("../"+c27CanaryTop, filepath.Join(b.dest, "q"))
	ftMustWrite(filepath.Join(b.dest, "f"), "INSIDE-f", 0o644)
	ftMustMkdir(filepath.Join(b.dest, "d"))
	ftMustSymlink("../../outside", filepath.Join(b.dest, "d", "l"))
	// dangling links whose real targets lie outside dest
	ftMustSymlink("../outside/missing.txt", filepath.Join(b.dest, "dg"))
	ftMustSymlink("../../missing_top.txt", filepath.Join(b.dest, "d", "dg2"))
	if b.prepop == 2 {
		if err := os.Link(filepath.Join(b.root, "outside", c27Canary1), filepath.Join(b.dest, "h")); err != nil {
			panic("harness sandbox: " + err.Error())
		}
	}
}

// reset brings dest back to its pre-populated state; the outside is known to be intact.
func (b *c27Box) reset() {
	if b.prepop == 2 {
		// removing h changes the link count of the outside canary: rebuild everything
		b.rebuild(2)
		return
	}
	ftRestorePerms(b.dest)
	if err := os.RemoveAll(b.dest); err != nil {
		panic("harness sandbox: " + err.Error())
	}
	b.fillDest()
}

var c27GzPool = sync.Pool{New: func() any {
	w, _ := gzip.NewWriterLevel(nil, gzip.BestSpeed)
	return w
}}

// c27LinkText turns an entry's Target into the literal link text. "$ABS" is the absolute
// path of <root>/outside. A target starting with "@" is written relative to dest and is
// converted to be relative to the directory of the entry (e.g. name d/x, "@d/up/../n" ->
// "../d/up/../n"), so that targets can be built from the names of earlier entries.
func c27LinkText(e c27Entry, absOutside string) string {
	t := strings.ReplaceAll(e.Target, "$ABS", absOutside)
	if strings.HasPrefix(t, "@") {
		n := filepath.Clean(filepath.FromSlash(e.Name))
		up := ""
		if !filepath.IsAbs(n) && n != ".." && !strings.HasPrefix(n, "../") {
			up = strings.Repeat("../", strings.Count(n, "/"))
		}
		t = up + t[1:]
	}
	return t
}

func c27Archive(entries []c27Entry, absOutside string) []byte {
	var buf bytes.Buffer
	gz := c27GzPool.Get().(*gzip.Writer)
	gz.Reset(&buf)
	tw := tar.NewWriter(gz)
	for i, e := range entries {
		h := &tar.Header{Name: e.Name, Mode: e.Mode, Format: tar.FormatPAX}
		if h.Mode == 0 {
			h.Mode = 0o644
		}
		tgt := c27LinkText(e, absOutside)
		h.Name = strings.ReplaceAll(h.Name, "$ABS", absOutside)
		var body []byte
		switch e.Type {
		case "reg":
			h.Typeflag = tar.TypeReg
			body = []byte(fmt.Sprintf("UPLOAD-entry-%d", i))
			h.Size = int64(len(body))
		case "dir":
			h.Typeflag = tar.TypeDir
			if e.Mode == 0 {
				h.Mode = 0o755
			}
		case "sym":
			h.Typeflag = tar.TypeSymlink
			h.Linkname = tgt
		case "hard":
			h.Typeflag = tar.TypeLink
			h.Linkname = tgt
		default:
			h.Typeflag = tar.TypeFifo
		}
		if err := tw.WriteHeader(h); err != nil {
			panic("harness archive: " + err.Error())
		}
		if body != nil {
			tw.Write(body)
		}
	}
	tw.Close()
	gz.Close()
	c27GzPool.Put(gz)
	return buf.Bytes()
}

// c27Class computes the structural class of an archive from its entries and the
// pre-population of dest (no reference to what the extraction did).
func c27Class(entries []c27Entry, prepop int) string {
	clean := func(s string) string { return filepath.Clean(filepath.FromSlash(s)) }
	under := func(p, link string) bool { return p == link || strings.HasPrefix(p, link+"/") }
	chain, preSym, preHard, lexical := false, false, false, false
	var links []string
	for _, e := range entries {
		paths := []string{clean(e.Name)}
		if e.Type == "hard" {
			paths = append(paths, clean(e.Target))
		}
		for _, p := range paths {
			for _, l := range links {
				if under(p, l) {
					chain = true
				}
			}
			if prepop >= 1 && (under(p, "p") || under(p, "q") || under(p, "d/l") || under(p, "dg") || under(p, "d/dg2")) {
				preSym = true
			}
			if prepop == 2 && under(p, "h") {
				preHard = true
			}
			if filepath.IsAbs(p) || p == ".." || strings.HasPrefix(p, "../") {
				lexical = true
			}
		}
		if e.Type == "sym" {
			t := c27LinkText(e, "/abs")
			if filepath.IsAbs(t) {
				lexical = true
			} else if r := filepath.Join(filepath.Dir(clean(e.Name)), t); r == ".." || strings.HasPrefix(r, "../") {
				lexical = true
			}
			links = append(links, clean(e.Name))
		}
	}
	switch {
	case chain:
		return "chained-links"
	case preSym:
		return "preexisting-symlink"
	case preHard:
		return "preexisting-hardlink"
	case lexical:
		return "lexical"
	}
	return "plain"
}

// c27Features counts the structural situations the generator is meant to produce (evidence
// counters; no influence on the verdict).
func c27Features(r *verifkit.R, entries []c27Entry, prepop int) {
	clean := func(s string) string { return filepath.Clean(filepath.FromSlash(s)) }
	var links []string
	for _, e := range entries {
		n := clean(e.Name)
		for _, l := range links {
			if n == l {
				r.Add("entry_named_like_earlier_symlink_"+e.Type, 1)
				break
			}
		}
		if prepop >= 1 && (n == "dg" || n == "d/dg2") {
			r.Add("entry_named_like_preexisting_dangling_link_"+e.Type, 1)
		}
		if e.Type == "sym" {
			// un-cleaned dest-relative walk of the target: does it pass through an earlier link?
			t := c27LinkText(e, "/abs")
			if !filepath.IsAbs(t) {
				cur := filepath.Dir(n)
				through := false
				for _, seg := range strings.Split(t, "/") {
					cur = filepath.Join(cur, seg)
					for _, l := range links {
						if cur == l {
							through = true
						}
					}
					if prepop >= 1 && (cur == "p" || cur == "d/l" || cur == "dg" || cur == "d/dg2" || cur == "q") {
						through = true
					}
				}
				if through {
					r.Add("symlink_target_through_earlier_link", 1)
				}
			}
			links = append(links, n)
		}
	}
}

// c27Run extracts one archive into the box and judges it. Returns the error of UntarDirectory.
func c27Run(r *verifkit.R, b *c27Box, phase string, ci int, entries []c27Entry) error {
	absOutside := filepath.Join(b.root, "outside")
	arc := c27Archive(entries, absOutside)
	err := filetransfer.UntarDirectory(bytes.NewReader(arc), b.dest)
	after, serr := ftSnapshot(b.root, []string{b.dest}, nil)
	if serr != nil {
		panic("harness snapshot: " + serr.Error())
	}
	class := c27Class(entries, b.prepop)
	desc := make([]string, len(entries))
	for i, e := range entries {
		desc[i] = e.String()
	}
	fp := fmt.Sprintf("prepop=%d|%s", b.prepop, strings.Join(desc, "|"))
	r.Eval(fp, class != "plain")
	r.Add("archives_"+class, 1)
	c27Features(r, entries, b.prepop)
	r.Add("entries_fed", len(entries))
	if err == nil {
		r.Add("extract_ok", 1)
	} else {
		r.Add("extract_refused", 1)
	}
	if n := c27CountDest(b.dest) - []int{0, 7, 8}[b.prepop]; n > 0 {
		r.Add("objects_created_in_dest", n)
	}
	ch := ftDiff(b.snap, after)
	if b.prepop == 2 {
		// dest/h shares its inode with outside/CANARYNAME_1.txt by construction of this
		// pre-population: linking or unlinking the name dest/h is an operation inside dest
		// although it shows in that inode's link count. Content/mode changes still count.
		kept := ch[:0]
		for _, c := range ch {
			if !(c.Kind == "nlink" && c.Path == filepath.Join(b.root, "outside", c27Canary1)) {
				kept = append(kept, c)
			}
		}
		ch = kept
	}
	if len(ch) > 0 {
		key := class + ":" + ftSymptom(ch)
		r.Violation(key, phase, ci, fmt.Sprintf(
			"UntarDirectory(archive, <root>/dest) changed the filesystem outside dest (returned err=%v); dest pre-population %d; archive entries: %s; first change: %s %s",
			err, b.prepop, strings.Join(desc, " ; "), ch[0].Kind, strings.TrimPrefix(ch[0].Path, b.root)),
			map[string]any{"prepop": b.prepop, "entries": entries, "changes": ftRelChanges(ch, b.root), "returned_error": fmt.Sprint(err)})
		b.rebuild(b.prepop)
		return err
	}
	if r.NeedSample() && class != "plain" && err == nil {
		r.Sample(map[string]any{"prepop": b.prepop, "entries": desc, "class": class, "outside_unchanged": true})
	}
	b.reset()
	return err
}

func c27CountDest(dest string) int {
	n := 0
	filepath.Walk(dest, func(p string, fi os.FileInfo, err error) error {
		if err == nil && p != dest {
			n++
		}
		return nil
	})
	return n
}

// The exhaustive alphabet. Names: a three-level chain a, a/b, a/b/c; p/n runs through the
// pre-existing directory link p, d/l/n through the pre-existing link l inside the real
// directory d; q is the pre-existing file link; ../x is plain traversal.
var c27Names = []string{"a", "a/b", "a/b/c", "p/n", "d/l/n", "q", "../x"}
var c27SymTargets = []string{".", "..", "a", "../outside", "$ABS"}
var c27HardTargets = []string{"f", "a", "a/b", "p/" + c27Canary1, "../" + c27CanaryTop}

func c27Variants() []c27Entry {
	var v []c27Entry
	for _, n := range c27Names {
		v = append(v, c27Entry{Type: "reg", Name: n}, c27Entry{Type: "dir", Name: n})
		for _, t := range c27SymTargets {
			v = append(v, c27Entry{Type: "sym", Name: n, Target: t})
		}
		for _, t := range c27HardTargets {
			v = append(v, c27Entry{Type: "hard", Name: n, Target: t})
		}
	}
	return v
}

// Second exhaustive alphabet: what a symlink *target* resolves to once an earlier link is in
// place, and what happens at a final component that is a (dangling or live) link. Names: r
// (fresh top-level name), d/up (inside the real directory d), dg (pre-existing dangling link).
// Targets: ".." (for d/up: lexically and really dest), and dest-relative "@" targets built from
// the other names: d/up/../n (lexically dest/d/n; with d/up -> .. really <parent of dest>/n,
// which does not exist: a dangling link out of dest), d/up/../outside/CANARYNAME_1.txt (a live
// link out of dest), dg and r (links to links).
var c27NamesB = []string{"r", "d/up", "dg"}
var c27SymTargetsB = []string{"..", "@d/up/../n", "@d/up/../outside/" + c27Canary1, "@dg", "@r"}
var c27HardTargetsB = []string{"f", "r", "dg", "d/up/../outside/" + c27Canary1}

func c27VariantsB() []c27Entry {
	var v []c27Entry
	for _, n := range c27NamesB {
		v = append(v, c27Entry{Type: "reg", Name: n}, c27Entry{Type: "dir", Name: n})
		for _, t := range c27SymTargetsB {
			v = append(v, c27Entry{Type: "sym", Name: n, Target: t})
		}
		for _, t := range c27HardTargetsB {
			v = append(v, c27Entry{Type: "hard", Name: n, Target: t})
		}
	}
	return v
}

// c27Exhaustive runs every archive of <= maxLen entries over variants on pre-population 1.
// One verifkit case per first entry; a prefix whose extraction failed is not extended.
func c27Exhaustive(r *verifkit.R, base, phase string, variants []c27Entry, maxLen int) {
	r.ParCases(phase, len(variants), 4, func(ci int, _ *verifkit.Rand) {
		b := &c27Box{base: filepath.Join(base, fmt.Sprintf("%s%d", phase, ci))}
		b.rebuild(1)
		defer func() { ftRestorePerms(b.root); os.RemoveAll(b.root) }()
		// extend(prefix): prefix was extracted without error; run every one-entry extension,
		// then descend into those that were accepted (shortest witnesses are met first).
		var extend func(prefix []c27Entry)
		extend = func(prefix []c27Entry) {
			var accepted [][]c27Entry
			for _, v := range variants {
				next := append(append([]c27Entry(nil), prefix...), v)
				if err := c27Run(r, b, phase, ci, next); err != nil {
					r.Add("exh_pruned_prefixes", 1)
				} else if len(next) < maxLen {
					accepted = append(accepted, next)
				}
			}
			for _, a := range accepted {
				extend(a)
			}
		}
		first := []c27Entry{variants[ci]}
		if err := c27Run(r, b, phase, ci, first); err != nil {
			r.Add("exh_pruned_prefixes", 1)
		} else if maxLen > 1 {
			extend(first)
		}
	})
}

func TestVerif_C27(t *testing.T) {
	r := verifkit.Start(t, "C27", "untar")
	r.Rule("one evaluation = one real UntarDirectory call on a sandbox with the outside snapshotted before/after; " +
		"exhaustive parts: every archive of <= 3 (thorough 4) entries over 84 (type,name,target) variants, and over a second alphabet of 33 variants whose link targets pass " +
		"through earlier links / dangle out of dest and whose names equal earlier or pre-existing links, extended only while extraction succeeds; " +
		"PRNG part: 4..8 entries over a richer alphabet (targets derived from earlier entry names + ../. segments, names equal to earlier links) on 3 pre-populations; non-trivial = archive whose structural class is not 'plain' " +
		"(traversal name/target, name or hard-link source through a symlink created earlier in the archive or already present in dest); distinct by pre-population + entry list")
	r.Assume("UntarDirectory processes entries sequentially and returns at the first failing entry, so an archive whose prefix was refused need not be extended (prefix pruning of the exhaustive enumeration)")
	r.Assume("the oracle observes names, type/permission bits, size, content, mtime, link count and symlink targets outside dest; reads of outside objects that leave no trace are not observed")
	base := ftTempBase(t)
	variants := c27Variants()
	maxLen := r.N(3, 4)
	r.Set("exhaustive_variants", len(variants))
	r.Set("exhaustive_max_entries", maxLen)

	// ---- exhaustive parts: one case per first entry, breadth-first below it
	c27Exhaustive(r, base, "exh", variants, maxLen)
	variantsB := c27VariantsB()
	r.Set("exhaustive2_variants", len(variantsB))
	c27Exhaustive(r, base, "exh2", variantsB, maxLen)
	r.Exhaustive(false) // the PRNG part below is sampled; the exhaustive parts are declared in info
	r.Set("exhaustive_part", fmt.Sprintf("all archives of <=%d entries over %d variants (exh) and over %d variants (exh2: link targets through earlier links, dangling links, names equal to links) on pre-population 1 (prefix-pruned)", maxLen, len(variants), len(variantsB)))

	// ---- PRNG part
	names := []string{"a", "b", "a/b", "a/b/c", "b/a", "a/c", "p/n", "p/" + c27Canary1, "p/sub/" + c27Canary2, "p", "q", "f", "h",
		"d/n", "d/l", "d/l/n", "d/l/" + c27Canary1, "a/b/c/x", "r", "d/up", "d/r", "dg", "dg", "d/dg2", "dg/x",
		"../x", "a/../../x", "../destX/x", "../destX/CANARYNAME_x.txt", "$ABS/x", "$ABS/" + c27Canary1, ".", "a/.", "./a", "a//b", "a/b/../c", "..", "a/..", "../dest/a"}
	symT := []string{".", "..", "../..", "../../..", "a", "b", "a/b", "../outside", "../../outside", "../outside/" + c27Canary1, "$ABS", "$ABS/" + c27Canary1,
		"p", "q", "f", "p/sub", "../" + c27CanaryTop, "b/../..", "a/../..", "/",
		"@dg", "@d/dg2", "@p/missing.txt", "@d/l/missing.txt", "@d/l/" + c27Canary1, "@q"}
	segs := []string{"..", "..", ".", "n", "missing.txt", "outside", "outside/" + c27Canary1, c27CanaryTop, "sub", "destX/x"}
	hardT := []string{"f", "h", "a", "b", "a/b", "q", "p", "d/l/" + c27Canary1, "p/" + c27Canary1, "p/sub/" + c27Canary2, "../" + c27CanaryTop, "../outside/" + c27Canary1,
		"$ABS/" + c27Canary1, "a/" + c27Canary1, "b/" + c27Canary1, "a/b/" + c27CanaryTop, "a/" + c27CanaryTop, "b/sub/" + c27Canary2, "dg", "d/dg2", "r", "d/up", "d/r"}
	modes := []int64{0, 0o644, 0o755, 0o4755, 0o777, 0o000, 0o600}
	n := r.N(8000, 400000)
	workers := 4
	boxes := make(chan *c27Box, workers)
	for w := 0; w < workers; w++ {
		boxes <- &c27Box{base: filepath.Join(base, fmt.Sprintf("rnd%d", w))}
	}
	r.ParCases("rnd", n, workers, func(ci int, rng *verifkit.Rand) {
		b := <-boxes
		defer func() { boxes <- b }()
		prepop := []int{0, 1, 1, 2}[rng.Intn(4)]
		if b.root == "" || b.prepop != prepop {
			b.rebuild(prepop)
		}
		k := rng.Range(4, 8)
		if rng.Chance(1, 5) {
			k = rng.Range(1, 3)
		}
		var es []c27Entry
		for i := 0; i < k; i++ {
			e := c27Entry{Name: verifkit.Pick(rng, names), Mode: verifkit.Pick(rng, modes)}
			switch x := rng.Intn(20); {
			case x < 6:
				e.Type = "reg"
			case x < 9:
				e.Type = "dir"
			case x < 15:
				e.Type = "sym"
				e.Target = verifkit.Pick(rng, symT)
			case x < 19:
				e.Type = "hard"
				e.Target = verifkit.Pick(rng, hardT)
			default:
				e.Type = "other"
			}
			// bias towards building on what earlier entries made
			if len(es) > 0 {
				prev := es[rng.Intn(len(es))]
				switch y := rng.Intn(12); {
				case y < 3: // a name below an earlier link / directory
					if prev.Type == "sym" || prev.Type == "dir" {
						e.Name = prev.Name + "/" + verifkit.Pick(rng, []string{"b", "c", "x", c27Canary1, c27CanaryTop, "sub/" + c27Canary2})
					}
				case y < 6: // a name EQUAL to an earlier (live or dangling) link
					if prev.Type == "sym" {
						e.Name = prev.Name
					}
				}
				// a link target built from the name of an earlier entry plus ../. segments, so that
				// it passes through that entry (dest-relative "@" form); mostly dangling
				if (e.Type == "sym" || e.Type == "hard") && rng.Chance(1, 2) {
					src := es[rng.Intn(len(es))]
					if sn := filepath.Clean(src.Name); !filepath.IsAbs(sn) && !strings.HasPrefix(sn, "..") && !strings.Contains(sn, "$") {
						t := sn
						for k := rng.Range(1, 3); k > 0; k-- {
							t += "/" + verifkit.Pick(rng, segs)
						}
						if e.Type == "sym" {
							e.Target = "@" + t
						} else {
							e.Target = t
						}
					}
				}
			}
			es = append(es, e)
		}
		c27Run(r, b, "rnd", ci, es)
	})
	close(boxes)
	for b := range boxes {
		if b.root != "" {
			ftRestorePerms(b.root)
			os.RemoveAll(b.root)
		}
	}
	r.Require("extract_ok", 500)
	r.Require("extract_refused", 50)
	r.Require("objects_created_in_dest", 1000)
	r.Require("archives_plain", 100)
	r.Require("symlink_target_through_earlier_link", 500)
	r.Require("entry_named_like_earlier_symlink_reg", 200)
	r.Require("entry_named_like_preexisting_dangling_link_reg", 100)
}
