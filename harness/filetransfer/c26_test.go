package filetransfer_test

// C26 — every file or directory that file transfer or remote browsing reads, writes, creates,
// lists, chmods or deletes lies inside the configured allowed paths after symbolic links are
// resolved; with no allowed paths configured nothing is touched.
//
// Monitor: a sandbox <root>/{<allowed>/..., second/..., outside/..., <allowed>X/..., CANARY
// files}. Everything that is not inside a configured allowed directory holds canary-named
// files with canary contents. Around every request the whole sandbox minus the allowed
// subtrees is snapshotted (names, type+mode, size, content, mtime, nlink, link targets), and
// every byte returned by a download (after gunzip/untar) and every entry name returned by a
// listing is searched for canaries.
// Oracle: snapshot unchanged; no canary in any output. With allowed_paths = [] the snapshot
// covers the allowed tree too and no data may be returned at all.
//
// The requests go through the same call sequence as internal/agent/agent.go:
// ValidateUploadMetadata -> WriteUploadedFile(meta.Path...), ValidateDownloadMetadata ->
// ReadFileForDownload[AtOffset](meta.Path...), Browse(req).
//
// Directory uploads come in two kinds: "upload-dir" (plain entries; the request path decides)
// and "upload-dir-deep": the archive's entries lie one or more levels below symbolic links of
// the allowed tree with the intermediate directories existing on the far side, hard-link
// entries are sourced behind links, and a self-contained chain c0 -> ., c1 -> c0/.. climbs out
// of the destination (this overlaps with C27, judged here against the allowed paths).

import (
	"archive/tar"
	"bytes"
	"compress/gzip"
	"fmt"
	"io"
	"os"
	"path/filepath"
	"strings"
	"testing"

	"github.com/postalsys/muti-metroo/internal/filetransfer"
	"github.com/postalsys/muti-metroo/internal/verifkit"
	"golang.org/x/text/unicode/norm"
)

const (
	c26CanaryName    = "CANARYNAME"
	c26CanaryContent = "CANARY-CONTENT"
	// '#' occurs only in outside files (as the tail of every one of them), so that a resumed
	// download returning just a suffix of an outside file is still recognised
	c26CanaryTail = "-########"
)

type c26Link struct {
	At     string `json:"at"`     // path relative to root
	Target string `json:"target"` // literal link text ($ROOT = absolute sandbox root)
}

// c26Spec describes a sandbox completely, so that it can be rebuilt after a violation.
type c26Spec struct {
	AllowedName string    `json:"allowed_name"` // "allowed" or the NFC name allow\u00e9d
	Form        string    `json:"form"`         // dir, dir/**, dir/*, two, star, empty
	Links       []c26Link `json:"links"`
}

type c26Box struct {
	spec      c26Spec
	root      string
	allowed   string   // <root>/<AllowedName>
	allowDirs []string // configured allowed directories (real paths)
	patterns  []string
	h         *filetransfer.StreamHandler
	snap      ftSnap
}

func c26Build(base string, n int, spec c26Spec) *c26Box {
	b := &c26Box{spec: spec, root: filepath.Join(base, fmt.Sprintf("s%d", n))}
	b.allowed = filepath.Join(b.root, spec.AllowedName)
	second := filepath.Join(b.root, "second")
	inside := func(dir string) {
		ftMustMkdir(filepath.Join(dir, "sub", "deep"))
		ftMustMkdir(filepath.Join(dir, "emptydir"))
		ftMustWrite(filepath.Join(dir, "f0.txt"), "INSIDE-f0", 0o644)
		ftMustWrite(filepath.Join(dir, "sub", "f1.txt"), "INSIDE-f1", 0o640)
		ftMustWrite(filepath.Join(dir, "sub", "deep", "f2.txt"), "INSIDE-f2", 0o600)
	}
	outside := func(dir, tag string) {
		ftMustMkdir(filepath.Join(dir, c26CanaryName+"_dir"))
		ftMustMkdir(filepath.Join(dir, "sub", "deep"))
		ftMustWrite(filepath.Join(dir, c26CanaryName+"_"+tag+"_a.txt"), c26CanaryContent+"-"+tag+"-a"+c26CanaryTail, 0o644)
		ftMustWrite(filepath.Join(dir, c26CanaryName+"_dir", c26CanaryName+"_"+tag+"_b.txt"), c26CanaryContent+"-"+tag+"-b"+c26CanaryTail, 0o600)
		// same relative names as the inside tree, so that a request shape that is fine inside
		// finds something when it is redirected
		ftMustWrite(filepath.Join(dir, "f0.txt"), c26CanaryContent+"-"+tag+"-f0"+c26CanaryTail, 0o644)
		ftMustWrite(filepath.Join(dir, "sub", "f1.txt"), c26CanaryContent+"-"+tag+"-f1"+c26CanaryTail, 0o640)
		ftMustWrite(filepath.Join(dir, "sub", "deep", "f2.txt"), c26CanaryContent+"-"+tag+"-f2"+c26CanaryTail, 0o600)
	}
	inside(b.allowed)
	outside(filepath.Join(b.root, "outside"), "out")
	outside(b.allowed+"X", "pfx") // prefix sibling: <allowed>X
	if spec.AllowedName != "allowed" {
		outside(filepath.Join(b.root, norm.NFD.String(spec.AllowedName)), "nfd") // NFD twin of the NFC allowed name
	}
	ftMustWrite(filepath.Join(b.root, c26CanaryName+"_top.txt"), c26CanaryContent+"-top"+c26CanaryTail, 0o644)
	switch spec.Form {
	case "dir":
		b.patterns = []string{b.allowed}
	case "dir/**":
		b.patterns = []string{b.allowed + "/**"}
	case "dir/*":
		b.patterns = []string{b.allowed + "/*"}
	case "two":
		b.patterns = []string{b.allowed, second}
	case "star":
		b.patterns = []string{"*"}
	case "empty":
		b.patterns = nil
	}
	if spec.Form == "two" {
		inside(second)
		b.allowDirs = []string{b.allowed, second}
	} else {
		outside(second, "second")
		b.allowDirs = []string{b.allowed}
	}
	for _, l := range spec.Links {
		at := filepath.Join(b.root, l.At)
		ftMustMkdir(filepath.Dir(at))
		ftMustSymlink(strings.ReplaceAll(l.Target, "$ROOT", b.root), at)
	}
	b.h = filetransfer.NewStreamHandler(filetransfer.StreamConfig{Enabled: true, AllowedPaths: b.patterns, Compression: true})
	b.snap = b.snapshot()
	return b
}

func (b *c26Box) snapshot() ftSnap {
	var excl, modeOnly []string
	switch b.spec.Form {
	case "empty":
		// nothing is allowed: the whole sandbox is "outside"
	case "dir/*":
		excl = b.allowDirs
		modeOnly = b.allowDirs // the directory itself does not match <dir>/*
	default:
		excl = b.allowDirs
	}
	s, err := ftSnapshot(b.root, excl, modeOnly)
	if err != nil {
		panic("harness snapshot: " + err.Error())
	}
	return s
}

func (b *c26Box) insideAllowed(real string) bool {
	if b.spec.Form == "star" {
		return true
	}
	if b.spec.Form == "empty" {
		return false
	}
	for _, d := range b.allowDirs {
		// <dir>/* matches what is below dir, not dir itself
		if (real == d && b.spec.Form != "dir/*") || strings.HasPrefix(real, d+"/") {
			return true
		}
	}
	return false
}

// classify computes, from the request path and the real filesystem only, which structural
// class the request belongs to. It never looks at what the code under test did.
func (b *c26Box) classify(path string, nfdTwin bool) string {
	switch {
	case b.spec.Form == "empty":
		return "empty-config"
	case b.spec.Form == "star":
		return "star-config"
	case path == "":
		return "lexical"
	}
	for _, c := range path {
		if c < 0x20 || c == 0x7f {
			return "ctrl"
		}
	}
	if nfdTwin {
		return "unicode"
	}
	if !filepath.IsAbs(path) {
		return "lexical"
	}
	// the path as given, walked the way the kernel would: a ".." that follows a symbolic link
	// leaves through the link's target, not through the lexical parent
	lex := "/"
	for _, c := range strings.Split(path, "/") {
		switch c {
		case "", ".":
		case "..":
			if fi, err := os.Lstat(lex); err == nil && fi.Mode()&os.ModeSymlink != 0 && strings.HasPrefix(lex, b.root+"/") {
				return "symlink-dotdot"
			}
			lex = filepath.Dir(lex)
		default:
			lex = filepath.Join(lex, c)
		}
	}
	clean := filepath.Clean(path)
	if !b.insideAllowed(clean) {
		return "lexical"
	}
	// walk the components below the filesystem root; the first symbolic link whose real
	// target is outside the allowed directories decides
	comps := strings.Split(strings.TrimPrefix(clean, "/"), "/")
	cur := "/"
	for i, c := range comps {
		cur = filepath.Join(cur, c)
		if !strings.HasPrefix(cur, b.root+"/") {
			continue
		}
		fi, err := os.Lstat(cur)
		if err != nil {
			break
		}
		if fi.Mode()&os.ModeSymlink == 0 {
			continue
		}
		real, err := filepath.EvalSymlinks(cur)
		dangling := false
		if err != nil {
			dangling = true
			real = c26ResolveDangling(cur, 0)
		}
		if b.insideAllowed(real) {
			cur = real
			continue
		}
		last := i == len(comps)-1
		switch {
		case dangling:
			return "symlink-dangling"
		case last:
			return "symlink-final"
		default:
			return "symlink-parent"
		}
	}
	return "nosymlink"
}

// c26ResolveDangling resolves a link chain whose end does not exist, as far as it goes.
func c26ResolveDangling(p string, depth int) string {
	if depth > 8 {
		return p
	}
	dir, err := filepath.EvalSymlinks(filepath.Dir(p))
	if err != nil {
		dir = filepath.Dir(p)
	}
	p = filepath.Join(dir, filepath.Base(p))
	t, err := os.Readlink(p)
	if err != nil {
		return p
	}
	if !filepath.IsAbs(t) {
		t = filepath.Join(dir, t)
	}
	if r, err := filepath.EvalSymlinks(t); err == nil {
		return r
	}
	if _, err := os.Lstat(t); err != nil {
		// the link's own target is missing: resolve its directory
		if d, err := filepath.EvalSymlinks(filepath.Dir(t)); err == nil {
			return filepath.Join(d, filepath.Base(t))
		}
		return t
	}
	return c26ResolveDangling(t, depth+1)
}

type c26Req struct {
	Action   string `json:"action"` // download download-offset upload upload-dir list stat chmod delete roots
	Path     string `json:"path"`
	Compress bool   `json:"compress,omitempty"`
	Recurse  bool   `json:"recursive,omitempty"`
	Mode     string `json:"mode,omitempty"`
	NFDTwin  bool   `json:"nfd_twin,omitempty"`
	Shape    string `json:"shape"`
	Offset   string `json:"offset,omitempty"` // download-offset: 1, small, size-1, size, beyond
	// upload-dir-deep only: the archive entries ("reg name", "sym name -> target",
	// "hard name -> source"), names relative to Path
	Entries []c26TarEntry `json:"entries,omitempty"`
}

type c26TarEntry struct {
	Type   string `json:"type"` // reg sym hard dir
	Name   string `json:"name"`
	Target string `json:"target,omitempty"`
}

// c26WalkFrom walks up to depth steps down from start over the REAL tree, following links
// (and preferring them), and returns the path it reached (start itself if nothing is below).
func c26WalkFrom(rng *verifkit.Rand, start string, depth int) string {
	p := start
	for d := 0; d < depth; d++ {
		ents, err := os.ReadDir(p)
		if err != nil || len(ents) == 0 {
			break
		}
		var linkNames []string
		for _, e := range ents {
			if e.Type()&os.ModeSymlink != 0 {
				linkNames = append(linkNames, e.Name())
			}
		}
		name := ents[rng.Intn(len(ents))].Name()
		if len(linkNames) > 0 && rng.Chance(2, 3) {
			name = verifkit.Pick(rng, linkNames)
		}
		p = filepath.Join(p, name)
		if fi, err := os.Stat(p); err != nil || !fi.IsDir() {
			break
		}
	}
	return p
}

// c26GenDeepEntries builds a directory archive for dest whose entries lie one or more
// levels BELOW symbolic links of the tree (intermediate directories exist on the far side:
// the outside trees mirror sub/deep), hard-link entries whose source lies behind a link, and
// optionally a self-contained chain c0 -> ., c1 -> c0/.., c2 -> c1/.. ... that climbs out of
// dest with lexically-inside targets, followed by an entry below it into an existing outside
// directory. Names of files that could legitimately be created never contain the canary name.
func c26GenDeepEntries(rng *verifkit.Rand, b *c26Box, dest string) []c26TarEntry {
	var es []c26TarEntry
	dest = filepath.Clean(dest)
	rel := func(p string) string { return strings.TrimPrefix(strings.TrimPrefix(p, dest), "/") }
	isDir := func(p string) bool { fi, err := os.Stat(p); return err == nil && fi.IsDir() }
	if filepath.IsAbs(dest) && isDir(dest) {
		for i, n := 0, rng.Range(2, 4); i < n; i++ {
			p := c26WalkFrom(rng, dest, rng.Range(1, 4))
			if p == dest {
				continue
			}
			if isDir(p) {
				es = append(es, c26TarEntry{Type: "reg", Name: rel(p) + "/" + verifkit.Pick(rng, []string{"evil.txt", "f0.txt", "newdir/evil.txt"})})
			} else if rng.Bool() {
				es = append(es, c26TarEntry{Type: "reg", Name: rel(p)}) // overwrite what is there
			} else {
				es = append(es, c26TarEntry{Type: "hard", Name: fmt.Sprintf("hl_%d", i), Target: rel(p)}) // link what is there
			}
		}
	}
	if rng.Chance(1, 2) {
		// climb: how many levels is dest below the sandbox root?
		up := strings.Count(strings.TrimPrefix(dest, b.root), "/")
		if up >= 1 && up <= 4 && strings.HasPrefix(dest, b.root+"/") {
			es = append(es, c26TarEntry{Type: "sym", Name: "c0", Target: "."})
			for k := 1; k <= up; k++ {
				es = append(es, c26TarEntry{Type: "sym", Name: fmt.Sprintf("c%d", k), Target: fmt.Sprintf("c%d/..", k-1)})
			}
			top := fmt.Sprintf("c%d", up) // really the sandbox root
			es = append(es, c26TarEntry{Type: "reg", Name: top + "/" + verifkit.Pick(rng, []string{"outside/sub/evil.txt", "outside/sub/deep/f2.txt", "outside/evil.txt", filepath.Base(b.allowed) + "X/sub/evil.txt", "evil.txt"})})
			if rng.Bool() {
				es = append(es, c26TarEntry{Type: "hard", Name: "hl_c", Target: top + "/outside/f0.txt"})
			}
		}
	}
	verifkit.Shuffle(rng, es)
	// the chain only works in order: keep c0..ck in increasing order relative to each other
	ci := []int{}
	for i, e := range es {
		if e.Type == "sym" && strings.HasPrefix(e.Name, "c") {
			ci = append(ci, i)
		}
	}
	for k, i := range ci {
		es[i] = c26TarEntry{Type: "sym", Name: fmt.Sprintf("c%d", k), Target: map[bool]string{true: ".", false: fmt.Sprintf("c%d/..", k-1)}[k == 0]}
	}
	// entries below the chain go last
	var head, tail []c26TarEntry
	for _, e := range es {
		if e.Type != "sym" && (strings.HasPrefix(e.Name, "c") && strings.Contains(e.Name, "/") || strings.HasPrefix(e.Target, "c")) {
			tail = append(tail, e)
		} else {
			head = append(head, e)
		}
	}
	es = append(head, tail...)
	es = append(es, c26TarEntry{Type: "reg", Name: "up_deep.txt"})
	return es
}

type c26Out struct {
	accepted bool     // the operation was carried out (no error)
	data     [][]byte // returned bytes (download content, decompressed; tar member contents)
	names    []string // returned names (list entries, tar member names)
	note     string
}

func c26ReadAll(rd io.Reader) []byte {
	var buf bytes.Buffer
	io.Copy(&buf, io.LimitReader(rd, 1<<22))
	if c, ok := rd.(io.Closer); ok {
		c.Close()
	}
	return buf.Bytes()
}

func c26Gunzip(b []byte) []byte {
	zr, err := gzip.NewReader(bytes.NewReader(b))
	if err != nil {
		return b
	}
	out, _ := io.ReadAll(io.LimitReader(zr, 1<<22))
	return out
}

func (b *c26Box) do(q c26Req) c26Out {
	h := b.h
	var o c26Out
	switch q.Action {
	case "download", "download-offset":
		meta := &filetransfer.TransferMetadata{Path: q.Path, Compress: q.Compress}
		if err := h.ValidateDownloadMetadata(meta); err != nil {
			o.note = "validate: " + err.Error()
			return o
		}
		var rd io.Reader
		var isDir bool
		var err error
		if q.Action == "download-offset" {
			// as Agent.sendFileDownload does for Meta.Offset > 0: stat the path as given, then
			// hand the path as given to the offset reader
			info, statErr := os.Stat(meta.Path)
			if statErr != nil {
				o.note = "stat: " + statErr.Error()
				return o
			}
			off := int64(1)
			switch q.Offset {
			case "small":
				off = 3
			case "size-1":
				off = max(info.Size()-1, 1)
			case "size":
				off = max(info.Size(), 1)
			case "beyond":
				off = info.Size() + 5
			}
			meta.Offset = off
			rd, _, _, isDir, err = h.ReadFileForDownloadAtOffset(meta.Path, meta.Offset, meta.Compress)
		} else {
			rd, _, _, isDir, err = h.ReadFileForDownload(meta.Path, meta.Compress)
		}
		if err != nil {
			o.note = "read: " + err.Error()
			return o
		}
		raw := c26ReadAll(rd)
		o.accepted = true
		if isDir {
			tr := tar.NewReader(bytes.NewReader(c26Gunzip(raw)))
			for {
				hd, err := tr.Next()
				if err != nil {
					break
				}
				o.names = append(o.names, hd.Name)
				if hd.Typeflag == tar.TypeReg {
					body, _ := io.ReadAll(io.LimitReader(tr, 1<<20))
					o.data = append(o.data, body)
				}
			}
		} else if q.Compress {
			o.data = append(o.data, c26Gunzip(raw)) // judge the payload, not the gzip framing
		} else {
			o.data = append(o.data, raw)
		}
	case "upload":
		body := []byte("UPLOAD-CONTENT-file")
		meta := &filetransfer.TransferMetadata{Path: q.Path, Size: int64(len(body)), Mode: 0o644, Compress: q.Compress}
		if err := h.ValidateUploadMetadata(meta); err != nil {
			o.note = "validate: " + err.Error()
			return o
		}
		var src io.Reader = bytes.NewReader(body)
		if q.Compress {
			var zb bytes.Buffer
			zw := gzip.NewWriter(&zb)
			zw.Write(body)
			zw.Close()
			src = &zb
		}
		if _, err := h.WriteUploadedFile(meta.Path, src, meta.Mode, false, meta.Compress); err != nil {
			o.note = "write: " + err.Error()
			return o
		}
		o.accepted = true
	case "upload-dir":
		meta := &filetransfer.TransferMetadata{Path: q.Path, Size: -1, IsDirectory: true, Compress: true}
		if err := h.ValidateUploadMetadata(meta); err != nil {
			o.note = "validate: " + err.Error()
			return o
		}
		var zb bytes.Buffer
		zw := gzip.NewWriter(&zb)
		tw := tar.NewWriter(zw)
		tw.WriteHeader(&tar.Header{Name: "up_d", Typeflag: tar.TypeDir, Mode: 0o755})
		for _, n := range []string{"up_1.txt", "up_d/up_2.txt"} {
			body := []byte("UPLOAD-CONTENT-" + n)
			tw.WriteHeader(&tar.Header{Name: n, Typeflag: tar.TypeReg, Mode: 0o644, Size: int64(len(body))})
			tw.Write(body)
		}
		tw.Close()
		zw.Close()
		if _, err := h.WriteUploadedFile(meta.Path, &zb, 0, true, true); err != nil {
			o.note = "write: " + err.Error()
			return o
		}
		o.accepted = true
	case "upload-dir-deep":
		meta := &filetransfer.TransferMetadata{Path: q.Path, Size: -1, IsDirectory: true, Compress: true}
		if err := h.ValidateUploadMetadata(meta); err != nil {
			o.note = "validate: " + err.Error()
			return o
		}
		var zb bytes.Buffer
		zw := gzip.NewWriter(&zb)
		tw := tar.NewWriter(zw)
		for _, e := range q.Entries {
			switch e.Type {
			case "sym":
				tw.WriteHeader(&tar.Header{Name: e.Name, Typeflag: tar.TypeSymlink, Linkname: e.Target, Mode: 0o777})
			case "hard":
				tw.WriteHeader(&tar.Header{Name: e.Name, Typeflag: tar.TypeLink, Linkname: e.Target, Mode: 0o644})
			default:
				body := []byte("UPLOAD-CONTENT-deep")
				tw.WriteHeader(&tar.Header{Name: e.Name, Typeflag: tar.TypeReg, Mode: 0o644, Size: int64(len(body))})
				tw.Write(body)
			}
		}
		tw.Close()
		zw.Close()
		if _, err := h.WriteUploadedFile(meta.Path, &zb, 0, true, true); err != nil {
			o.note = "write: " + err.Error()
			return o
		}
		o.accepted = true
	case "roots":
		resp := h.Browse(&filetransfer.BrowseRequest{Action: "roots"})
		o.accepted = resp.Error == ""
		o.note = resp.Error
	default: // list stat chmod delete
		resp := h.Browse(&filetransfer.BrowseRequest{Action: q.Action, Path: q.Path, Mode: q.Mode, Recursive: q.Recurse})
		if resp.Error != "" {
			o.note = resp.Error
			return o
		}
		o.accepted = true
		if q.Action == "list" {
			for _, e := range resp.Entries {
				o.names = append(o.names, e.Name)
			}
		}
	}
	return o
}

// ---- generators

func c26GenSpec(rng *verifkit.Rand) c26Spec {
	s := c26Spec{AllowedName: "allowed"}
	if rng.Chance(1, 6) {
		s.AllowedName = "allow\u00e9d"
	}
	switch x := rng.Intn(20); {
	case x < 7:
		s.Form = "dir"
	case x < 11:
		s.Form = "dir/**"
	case x < 14:
		s.Form = "dir/*"
	case x < 17:
		s.Form = "two"
	case x < 18:
		s.Form = "star"
	default:
		s.Form = "empty"
	}
	nl := 0
	if rng.Chance(3, 4) {
		nl = rng.Range(1, 4)
	}
	places := []string{"", "sub", "sub/deep", "emptydir", "newparent"}
	outT := []string{"outside", "outside/" + c26CanaryName + "_dir", "outside/sub", "outside/" + c26CanaryName + "_out_a.txt", "outside/f0.txt",
		"", c26CanaryName + "_top.txt", "second", "second/sub", s.AllowedName + "X", "outside/missing.bin", "outside/missingdir/x.bin"}
	inT := []string{s.AllowedName, s.AllowedName + "/sub", s.AllowedName + "/sub/deep", s.AllowedName + "/f0.txt", s.AllowedName + "/sub/f1.txt", s.AllowedName + "/missing.bin"}
	for i := 0; i < nl; i++ {
		place := verifkit.Pick(rng, places)
		at := filepath.Join(s.AllowedName, place, fmt.Sprintf("l%d", i))
		var tgtRel string // relative to root
		switch x := rng.Intn(10); {
		case x < 6:
			tgtRel = verifkit.Pick(rng, outT)
		case x < 8:
			tgtRel = verifkit.Pick(rng, inT)
		default:
			if i > 0 { // chain through an earlier link
				tgtRel = s.Links[rng.Intn(i)].At
			} else {
				tgtRel = verifkit.Pick(rng, outT)
			}
		}
		var text string
		if rng.Bool() {
			text = filepath.Join("$ROOT", tgtRel)
		} else {
			up := strings.Repeat("../", strings.Count(filepath.Dir(at), "/")+1)
			text = strings.TrimSuffix(up+tgtRel, "/")
		}
		s.Links = append(s.Links, c26Link{At: at, Target: text})
	}
	return s
}

// c26GenReq draws a request. Paths are produced by a walk over the real tree that follows
// links (so requests do reach through them), by lexical attack shapes, or by the NFD twin.
func c26GenReq(rng *verifkit.Rand, b *c26Box) (q c26Req) {
	q.Action = verifkit.Pick(rng, []string{"download", "download", "download", "download-offset", "upload", "upload", "upload", "upload-dir", "upload-dir-deep", "upload-dir-deep",
		"list", "list", "list", "stat", "chmod", "chmod", "delete", "delete", "delete", "roots"})
	q.Compress = rng.Bool()
	q.Recurse = rng.Chance(2, 3)
	q.Mode = verifkit.Pick(rng, []string{"0777", "0600", "0000", "0755"})
	if q.Action == "download-offset" {
		q.Offset = verifkit.Pick(rng, []string{"1", "small", "size-1", "size", "beyond", "1", "small"})
	}
	wantNew := (q.Action == "upload" || q.Action == "upload-dir") && rng.Chance(2, 3)
	defer func() {
		if q.Action == "upload-dir-deep" {
			q.Entries = c26GenDeepEntries(rng, b, q.Path)
		}
	}()
	start := b.allowed
	if b.spec.Form == "two" && rng.Chance(1, 4) {
		start = filepath.Join(b.root, "second")
	}
	x := rng.Intn(20)
	if x >= 9 && x < 13 && len(b.spec.Links) == 0 {
		x = 0
	}
	switch {
	case x >= 9 && x < 13:
		// <link>/.. : lexically the link's own directory (inside the allowed tree), really the
		// parent of the link's target. Then 0..2 steps down what is really there (the names
		// need not exist lexically), all built by string concatenation so that nothing is
		// cleaned away; ./, // and a trailing /. are mixed in.
		q.Shape = "link-dotdot"
		l := b.spec.Links[rng.Intn(len(b.spec.Links))]
		p := b.root + "/" + l.At
		sep := func() string { return verifkit.Pick(rng, []string{"/", "/", "/", "/./", "//"}) }
		p += sep() + ".."
		if rng.Chance(1, 5) {
			p += sep() + ".."
		}
		// an upload may legitimately create what the path names lexically (inside the allowed
		// tree): keep canary names out of paths that can create
		creates := strings.HasPrefix(q.Action, "upload")
		for d, depth := 0, rng.Range(0, 3); d < depth; d++ {
			var names []string
			if ents, err := os.ReadDir(p); err == nil { // resolved by the kernel, links first
				for _, e := range ents {
					if !creates || !strings.Contains(e.Name(), c26CanaryName) {
						names = append(names, e.Name())
					}
				}
			}
			if len(names) == 0 {
				if d == 0 {
					fb := []string{"f0.txt", "sub/f1.txt", "sub/deep/f2.txt"}
					if !creates {
						fb = append(fb, c26CanaryName+"_top.txt")
					}
					p += sep() + verifkit.Pick(rng, fb)
				}
				break
			}
			p += sep() + verifkit.Pick(rng, names)
			if fi, err := os.Stat(p); err != nil || !fi.IsDir() {
				break
			}
		}
		if wantNew {
			p += sep() + "new.bin"
		}
		if rng.Chance(1, 6) {
			p += "/."
		}
		q.Path = p
	case x < 13: // walk
		q.Shape = "walk"
		p := start
		depth := rng.Range(0, 4)
		for d := 0; d < depth; d++ {
			ents, err := os.ReadDir(p) // follows links in p
			if err != nil || len(ents) == 0 {
				break
			}
			// prefer links
			var linkNames []string
			for _, e := range ents {
				if e.Type()&os.ModeSymlink != 0 {
					linkNames = append(linkNames, e.Name())
				}
			}
			name := ents[rng.Intn(len(ents))].Name()
			if len(linkNames) > 0 && rng.Chance(1, 2) {
				name = verifkit.Pick(rng, linkNames)
			}
			p = filepath.Join(p, name)
			if fi, err := os.Stat(p); err != nil || !fi.IsDir() {
				break
			}
		}
		if wantNew {
			p = filepath.Join(p, verifkit.Pick(rng, []string{"new.bin", "newdir/new.bin", "f0.txt", "sub/f1.txt"}))
		}
		// lexical noise that does not change the meaning
		switch rng.Intn(8) {
		case 0:
			p = strings.Replace(p, "/sub", "/./sub", 1)
			q.Shape = "walk+dot"
		case 1:
			p = strings.Replace(p, "/sub", "//sub", 1) + "/"
			q.Shape = "walk+slashes"
		case 2:
			p = strings.Replace(p, "/sub", "/emptydir/../sub", 1)
			q.Shape = "walk+dotdot-noop"
		case 3:
			p += "/."
			q.Shape = "walk+trailing-dot"
		}
		q.Path = p
	case x < 17: // lexical attacks
		shapes := []struct{ name, path string }{
			{"dotdot-sibling", start + "/../outside/" + c26CanaryName + "_out_a.txt"},
			{"dotdot-sibling-dir", start + "/../outside"},
			{"dotdot-deep", start + "/sub/deep/../../../outside/f0.txt"},
			{"dotdot-root", start + "/.."},
			{"abs-outside", b.root + "/outside/f0.txt"},
			{"abs-outside-dir", b.root + "/outside"},
			{"abs-root", b.root},
			{"abs-top-canary", b.root + "/" + c26CanaryName + "_top.txt"},
			{"prefix-sibling", start + "X/f0.txt"},
			{"prefix-sibling-dir", start + "X"},
			{"relative", strings.TrimPrefix(start, "/") + "/f0.txt"},
			{"relative-dotdot", "../" + filepath.Base(start) + "/f0.txt"},
			{"empty", ""},
			{"ctrl-nul", start + "/f0.txt\x00/../../outside/f0.txt"},
			{"ctrl-nul-suffix", b.root + "/outside/f0.txt\x00" + start},
			{"ctrl-esc", start + "/\x1b[2Jf0.txt"},
			{"ctrl-del", start + "/f0\x7f.txt"},
			{"second-dir", b.root + "/second/f0.txt"},
			{"fullwidth-dotdot", start + "/．．/outside/f0.txt"},
			{"backslash-dotdot", start + "/..\\..\\outside\\f0.txt"},
			{"allowed-self", start},
			{"allowed-self-slash", start + "/"},
		}
		sh := shapes[rng.Intn(len(shapes))]
		q.Shape, q.Path = sh.name, sh.path
		if wantNew && rng.Bool() && !strings.Contains(sh.name, "ctrl") && sh.name != "empty" {
			q.Path = filepath.Join(sh.path, "..", "new.bin")
			q.Shape += "+new"
		}
	default: // NFD twin of the allowed directory (only meaningful with the NFC name)
		if b.spec.AllowedName == "allowed" {
			q.Shape = "unicode-inside"
			q.Path = start + "/sub/" + norm.NFD.String("caf\u00e9.txt")
		} else {
			q.Shape = "nfd-twin"
			q.NFDTwin = true
			twin := filepath.Join(b.root, norm.NFD.String(b.spec.AllowedName))
			q.Path = twin + verifkit.Pick(rng, []string{"/f0.txt", "/sub/f1.txt", "", "/sub", "/" + c26CanaryName + "_nfd_a.txt", "/new.bin"})
		}
	}
	return q
}

func TestVerif_C26(t *testing.T) {
	r := verifkit.Start(t, "C26", "paths")
	r.Rule("one evaluation = one request (download / resumed download / file upload / directory upload / list / stat / chmod / delete / roots) carried through the real " +
		"StreamHandler on a PRNG sandbox with 0..4 symlinks (final component, parent directory, chains, dangling, relative and absolute) and an allowed-path form from " +
		"{dir, dir/**, dir/*, two dirs, *, []}; non-trivial = request whose path, followed naively, names something outside the allowed directories (symlink-parent, symlink-final, " +
		"symlink-dangling, symlink-dotdot (a \"..\" right after a link, path handed over un-cleaned), lexical, ctrl, unicode classes, a directory upload whose archive entries lie below links of the tree (archive-through-link), or any request under []); distinct by (form, links, action, path relative to the sandbox)")
	r.Assume("the oracle observes persistent effects outside the allowed directories and canaries in returned bytes/names; a stat/readdir of an outside object whose result is not returned is not observed")
	r.Assume("the agent call sites (internal/agent/agent.go handleFileTransfer*/BrowseFiles) are mirrored (Validate*Metadata then Write/Read with meta.Path), not executed")
	base := ftTempBase(t)
	nBoxes := r.N(1500, 40000)
	r.ParCases("fs", nBoxes, 4, func(ci int, rng *verifkit.Rand) {
		spec := c26GenSpec(rng)
		sub := filepath.Join(base, fmt.Sprintf("c%d", ci))
		n := 0
		b := c26Build(sub, n, spec)
		defer func() { ftRestorePerms(sub); os.RemoveAll(sub) }()
		nreq := rng.Range(6, 12)
		for k := 0; k < nreq; k++ {
			q := c26GenReq(rng, b)
			class := b.classify(q.Path, q.NFDTwin)
			if q.Action == "upload-dir-deep" && class == "nosymlink" {
				// the request path is clean; what is hostile is inside the archive
				class = "archive-through-link"
			}
			for _, e := range q.Entries {
				if strings.Count(e.Name, "/") >= 2 {
					r.Add("deep_archive_entries_2+_levels", 1)
				}
				if e.Type == "hard" {
					r.Add("deep_archive_hardlink_entries", 1)
				}
			}
			out := b.do(q)
			after := b.snapshot()
			ch := ftDiff(b.snap, after)
			rel := strings.ReplaceAll(q.Path, b.root, "$ROOT")
			hostile := class != "nosymlink" && class != "star-config"
			r.Eval(fmt.Sprintf("%s|%v|%s%s|%s|%v%v%s|%v", spec.Form, spec.Links, q.Action, q.Offset, rel, q.Compress, q.Recurse, q.Mode, q.Entries), hostile)
			r.Add("req_"+q.Action, 1)
			r.Add("class_"+class, 1)
			if out.accepted {
				r.Add("accepted", 1)
				if hostile {
					r.Add("accepted_in_hostile_class", 1)
				}
			} else {
				r.Add("refused", 1)
			}
			r.Add("returned_names", len(out.names))
			if q.Action == "download-offset" {
				for _, d := range out.data {
					r.Add("resumed_download_bytes", len(d))
				}
				r.Add("resume_offset_"+q.Offset, 1)
			}
			for _, d := range out.data {
				r.Add("returned_bytes", len(d))
			}
			if spec.Form == "star" {
				// everything is allowed: nothing to judge beyond "does not crash"
				if len(ch) > 0 {
					n++
					b = c26Build(sub, n, spec)
				}
				continue
			}
			wit := func() map[string]any {
				return map[string]any{"spec": spec, "patterns_rel": c26Rel(b.patterns, b.root), "request": q, "path_rel": rel,
					"class": class, "accepted": out.accepted, "note": strings.ReplaceAll(out.note, b.root, "$ROOT"), "changes": ftRelChanges(ch, b.root)}
			}
			bad := false
			if len(ch) > 0 {
				bad = true
				r.Violation(class+":"+q.Action+"-"+ftSymptom(ch), "fs", ci, fmt.Sprintf(
					"%s of %q (allowed_paths %v, links %v) changed the filesystem outside the allowed paths: %s %s",
					q.Action, rel, c26Rel(b.patterns, b.root), spec.Links, ch[0].Kind, strings.TrimPrefix(ch[0].Path, b.root)), wit())
			}
			leak := ""
			for _, d := range out.data {
				if bytes.Contains(d, []byte(c26CanaryContent)) || bytes.IndexByte(d, '#') >= 0 {
					leak = "leak-content"
				}
				if spec.Form == "empty" && len(d) > 0 {
					leak = "leak-content"
				}
			}
			if leak == "" {
				for _, nme := range out.names {
					if strings.Contains(nme, c26CanaryName) || spec.Form == "empty" {
						leak = "leak-name"
					}
				}
			}
			if leak != "" {
				bad = true
				r.Violation(class+":"+q.Action+"-"+leak, "fs", ci, fmt.Sprintf(
					"%s of %q (allowed_paths %v, links %v) returned data of an object outside the allowed paths (names %v)",
					q.Action, rel, c26Rel(b.patterns, b.root), spec.Links, out.names), wit())
			}
			if spec.Form == "empty" && out.accepted && q.Action != "roots" {
				bad = true
				r.Violation("empty-config:"+q.Action+"-accepted", "fs", ci, fmt.Sprintf("%s of %q was carried out although allowed_paths is empty", q.Action, rel), wit())
			}
			if !bad && hostile && r.NeedSample() {
				r.Sample(map[string]any{"form": spec.Form, "links": spec.Links, "action": q.Action, "path": rel, "class": class,
					"accepted": out.accepted, "note": strings.ReplaceAll(out.note, b.root, "$ROOT"), "outside_unchanged": true})
			}
			if bad || len(ch) > 0 {
				n++
				b = c26Build(sub, n, spec)
			} else if out.accepted && q.Action != "download" && q.Action != "download-offset" && q.Action != "list" && q.Action != "stat" && q.Action != "roots" {
				// the allowed tree was legitimately changed; keep going on it (later requests see
				// uploaded files, changed modes, deleted entries), the outside snapshot stays valid
			}
		}
	})
	r.Require("accepted", 500)
	r.Require("refused", 500)
	r.Require("class_symlink-parent", 200)
	r.Require("class_symlink-final", 100)
	r.Require("class_nosymlink", 500)
	r.Require("class_lexical", 200)
	r.Require("returned_bytes", 1000)
	r.Require("returned_names", 200)
	r.Require("class_archive-through-link", 200)
	r.Require("class_symlink-dotdot", 300)
	r.Require("resumed_download_bytes", 100) // observed 443..2000+ over PRNG seeds; the floor only guards against a phase that never resumes
	r.Require("deep_archive_entries_2+_levels", 300)
	r.Require("deep_archive_hardlink_entries", 100)
}

func c26Rel(ps []string, root string) []string {
	out := make([]string, len(ps))
	for i, p := range ps {
		out[i] = strings.ReplaceAll(p, root, "$ROOT")
	}
	return out
}
