package filetransfer_test

// Shared by the C26 and C27 harnesses: a filesystem snapshot oracle.
//
// ftSnapshot records, for every object under root that is NOT inside one of the
// excluded subtrees, everything an escaping operation could change: type+permission bits,
// size, content, modification time and link count of regular files, target of symbolic
// links, mode of directories (directory size/mtime are implied by the set of names).
// It never follows a symbolic link. ftDiff names the differences between two snapshots.

import (
	"fmt"
	"os"
	"path/filepath"
	"sort"
	"strings"
	"syscall"
	"testing"
)

// ftTempBase returns a scratch directory with symlinks resolved, on tmpfs when there is one
// (the harness makes hundreds of thousands of tiny sandboxes; the verdict does not depend on
// the filesystem type).
func ftTempBase(t *testing.T) string {
	base := ""
	if d, err := os.MkdirTemp("/dev/shm", "verif-ft-"); err == nil {
		base = d
		t.Cleanup(func() { ftRestorePerms(d); os.RemoveAll(d) })
	} else {
		base = t.TempDir()
	}
	if rb, err := filepath.EvalSymlinks(base); err == nil {
		base = rb
	}
	return base
}

type ftObj struct {
	Mode    os.FileMode
	Size    int64
	Nlink   uint64
	Mtime   int64
	Content string // regular files (the sandbox only holds small files)
	Link    string // symlink target
}

type ftSnap map[string]ftObj

// ftSnapshot walks root; paths equal to or below any element of exclude are skipped.
// modeOnly lists excluded directories whose own permission bits are nevertheless recorded.
func ftSnapshot(root string, exclude []string, modeOnly []string) (ftSnap, error) {
	s := ftSnap{}
	skip := func(p string) bool {
		for _, e := range exclude {
			if p == e || strings.HasPrefix(p, e+string(filepath.Separator)) {
				return true
			}
		}
		return false
	}
	err := filepath.Walk(root, func(p string, fi os.FileInfo, err error) error {
		if err != nil {
			// an unreadable directory is itself an observable state
			s[p] = ftObj{Mode: os.ModeIrregular, Content: "walk error: " + err.Error()}
			return nil
		}
		if skip(p) {
			if fi.IsDir() {
				return filepath.SkipDir
			}
			return nil
		}
		o := ftObj{Mode: fi.Mode()}
		switch {
		case fi.Mode()&os.ModeSymlink != 0:
			o.Link, _ = os.Readlink(p)
		case fi.Mode().IsRegular():
			o.Size = fi.Size()
			o.Mtime = fi.ModTime().UnixNano()
			if st, ok := fi.Sys().(*syscall.Stat_t); ok {
				o.Nlink = uint64(st.Nlink)
			}
			b, rerr := os.ReadFile(p)
			if rerr != nil {
				o.Content = "read error: " + rerr.Error()
			} else {
				o.Content = string(b)
			}
		}
		s[p] = o
		return nil
	})
	for _, d := range modeOnly {
		if fi, e := os.Lstat(d); e == nil {
			s[d+"#mode"] = ftObj{Mode: fi.Mode()}
		} else {
			s[d+"#mode"] = ftObj{Mode: os.ModeIrregular}
		}
	}
	return s, err
}

type ftChange struct {
	Path string `json:"path"`
	Kind string `json:"kind"` // deleted created content mode nlink link-target mtime
	Was  string `json:"was,omitempty"`
	Now  string `json:"now,omitempty"`
}

func ftObjStr(o ftObj) string {
	c := o.Content
	if len(c) > 60 {
		c = c[:60] + "..."
	}
	return fmt.Sprintf("%v size=%d nlink=%d link=%q content=%q", o.Mode, o.Size, o.Nlink, o.Link, c)
}

// ftDiff lists what differs; the result is sorted by severity then path.
func ftDiff(before, after ftSnap) []ftChange {
	var out []ftChange
	for p, b := range before {
		a, ok := after[p]
		if !ok {
			out = append(out, ftChange{Path: p, Kind: "deleted", Was: ftObjStr(b)})
			continue
		}
		switch {
		case a.Mode.Type() != b.Mode.Type():
			out = append(out, ftChange{Path: p, Kind: "replaced", Was: ftObjStr(b), Now: ftObjStr(a)})
		case a.Content != b.Content || a.Size != b.Size:
			out = append(out, ftChange{Path: p, Kind: "content", Was: ftObjStr(b), Now: ftObjStr(a)})
		case a.Link != b.Link:
			out = append(out, ftChange{Path: p, Kind: "link-target", Was: ftObjStr(b), Now: ftObjStr(a)})
		case a.Mode != b.Mode:
			out = append(out, ftChange{Path: p, Kind: "mode", Was: ftObjStr(b), Now: ftObjStr(a)})
		case a.Nlink != b.Nlink:
			out = append(out, ftChange{Path: p, Kind: "nlink", Was: ftObjStr(b), Now: ftObjStr(a)})
		case a.Mtime != b.Mtime:
			out = append(out, ftChange{Path: p, Kind: "mtime", Was: ftObjStr(b), Now: ftObjStr(a)})
		}
	}
	for p, a := range after {
		if _, ok := before[p]; !ok {
			out = append(out, ftChange{Path: p, Kind: "created", Now: ftObjStr(a)})
		}
	}
	sort.Slice(out, func(i, j int) bool {
		if ftSeverity(out[i].Kind) != ftSeverity(out[j].Kind) {
			return ftSeverity(out[i].Kind) < ftSeverity(out[j].Kind)
		}
		return out[i].Path < out[j].Path
	})
	return out
}

func ftSeverity(k string) int {
	for i, s := range []string{"content", "deleted", "replaced", "created", "nlink", "link-target", "mode", "mtime"} {
		if s == k {
			return i
		}
	}
	return 99
}

// ftSymptom turns the most severe change into the symptom half of a violation key.
func ftSymptom(ch []ftChange) string {
	if len(ch) == 0 {
		return ""
	}
	switch ch[0].Kind {
	case "content", "mtime":
		return "outside-modified"
	case "deleted", "replaced":
		return "outside-deleted"
	case "created":
		return "outside-created"
	case "nlink":
		return "outside-hardlinked"
	case "link-target":
		return "outside-relinked"
	default:
		return "outside-chmod"
	}
}

// ftMustWrite / ftMustMkdir / ftMustSymlink are sandbox builders; a failure is a harness
// problem and panics (recorded per case by verifkit).
func ftMustWrite(p, content string, mode os.FileMode) {
	if err := os.WriteFile(p, []byte(content), mode); err != nil {
		panic("harness sandbox: " + err.Error())
	}
	if err := os.Chmod(p, mode); err != nil {
		panic("harness sandbox: " + err.Error())
	}
}

func ftMustMkdir(p string) {
	if err := os.MkdirAll(p, 0o755); err != nil {
		panic("harness sandbox: " + err.Error())
	}
}

func ftMustSymlink(target, p string) {
	if err := os.Symlink(target, p); err != nil {
		panic("harness sandbox: " + err.Error())
	}
}

// ftRestorePerms makes a tree deletable again (a chmod 000 on a directory would otherwise
// make t.TempDir cleanup fail).
func ftRestorePerms(root string) {
	filepath.Walk(root, func(p string, fi os.FileInfo, err error) error {
		if fi != nil && fi.IsDir() && fi.Mode()&os.ModeSymlink == 0 {
			os.Chmod(p, 0o755)
		}
		return nil
	})
}

// ftRelChanges strips the sandbox root from the paths of a change list (for witnesses).
func ftRelChanges(ch []ftChange, root string) []ftChange {
	out := make([]ftChange, len(ch))
	for i, c := range ch {
		c.Path = strings.TrimPrefix(c.Path, root)
		out[i] = c
	}
	return out
}
