// Package verifkit is the runtime-monitoring support library shared by every
// /verif harness. It is never committed to /repo: the check driver maps it into
// the module with `go test -overlay` as internal/verifkit.
//
// It provides: a seeded splitmix64 PRNG (one independent stream per case, so a
// single case can be replayed), a thread-safe Reporter that counts evaluated
// cases, distinct non-trivial fingerprints, observed events and violations,
// and writes the result JSON the driver turns into evidence.
package verifkit

import (
	"encoding/json"
	"fmt"
	"hash/fnv"
	"os"
	"runtime/debug"
	"sort"
	"strconv"
	"strings"
	"sync"
	"testing"
	"time"
)

// ---------------------------------------------------------------- PRNG

// Rand is a splitmix64 generator. Not safe for concurrent use; derive one per goroutine.
type Rand struct{ s uint64 }

func NewRand(seed uint64) *Rand { return &Rand{s: seed} }

func (r *Rand) U64() uint64 {
	r.s += 0x9e3779b97f4a7c15
	z := r.s
	z = (z ^ (z >> 30)) * 0xbf58476d1ce4e5b9
	z = (z ^ (z >> 27)) * 0x94d049bb133111eb
	return z ^ (z >> 31)
}

// Intn returns a value in [0,n). n<=0 returns 0.
func (r *Rand) Intn(n int) int {
	if n <= 0 {
		return 0
	}
	return int(r.U64() % uint64(n))
}

// Range returns a value in [lo,hi].
func (r *Rand) Range(lo, hi int) int {
	if hi <= lo {
		return lo
	}
	return lo + r.Intn(hi-lo+1)
}

func (r *Rand) Bool() bool { return r.U64()&1 == 1 }

// Chance returns true with probability num/den.
func (r *Rand) Chance(num, den int) bool { return r.Intn(den) < num }

func (r *Rand) Bytes(n int) []byte {
	b := make([]byte, n)
	r.Fill(b)
	return b
}

func (r *Rand) Fill(b []byte) {
	for i := 0; i < len(b); {
		v := r.U64()
		for k := 0; k < 8 && i < len(b); k++ {
			b[i] = byte(v)
			v >>= 8
			i++
		}
	}
}

// Fork derives an independent generator (for a goroutine or a sub-object).
func (r *Rand) Fork() *Rand { return &Rand{s: r.U64() ^ 0xa5a5a5a5deadbeef} }

// Pick returns a random element index helper.
func Pick[T any](r *Rand, xs []T) T { return xs[r.Intn(len(xs))] }

// Shuffle permutes xs in place.
func Shuffle[T any](r *Rand, xs []T) {
	for i := len(xs) - 1; i > 0; i-- {
		j := r.Intn(i + 1)
		xs[i], xs[j] = xs[j], xs[i]
	}
}

// Token returns an alphanumeric token of n chars.
func (r *Rand) Token(n int) string {
	const al = "abcdefghijklmnopqrstuvwxyzABCDEFGHIJKLMNOPQRSTUVWXYZ0123456789"
	b := make([]byte, n)
	for i := range b {
		b[i] = al[r.Intn(len(al))]
	}
	return string(b)
}

func mix(a, b uint64) uint64 {
	x := NewRand(a ^ (b * 0x9e3779b97f4a7c15) ^ 0x1234567)
	x.U64()
	return x.U64()
}

func hashStr(s string) uint64 {
	h := fnv.New64a()
	h.Write([]byte(s))
	return h.Sum64()
}

// ---------------------------------------------------------------- Reporter

// Violation is one observed refutation of the property.
type Violation struct {
	// Key is the structural signature of the failure (class + symptom). The
	// driver matches it against /verif/known_findings.json.
	Key     string `json:"key"`
	Phase   string `json:"phase"`
	Case    int    `json:"case"`
	Detail  string `json:"detail"`
	Witness any    `json:"witness,omitempty"`
}

type result struct {
	Property           string           `json:"property"`
	Part               string           `json:"part"`
	Tier               string           `json:"tier"`
	Seed               uint64           `json:"seed"`
	Evaluations        int              `json:"evaluations"`
	DistinctNontrivial int              `json:"distinct_nontrivial"`
	Rule               string           `json:"rule"`
	Samples            []any            `json:"samples"`
	Counters           map[string]int64 `json:"counters"`
	Info               map[string]any   `json:"info,omitempty"`
	Violations         []Violation      `json:"violations"`
	ViolationCounts    map[string]int   `json:"violation_counts"`
	Inconclusive       []string         `json:"inconclusive"`
	Assumptions        []string         `json:"assumptions,omitempty"`
	Exhaustive         bool             `json:"exhaustive,omitempty"`
	WallS              float64          `json:"wall_s"`
	Finished           bool             `json:"finished"`
}

// R is the per-test reporter.
type R struct {
	T    *testing.T
	ID   string
	Part string
	Tier string
	Seed uint64

	mu       sync.Mutex
	res      result
	fps      map[uint64]struct{}
	vioKeys  map[string]int
	out      string
	start    time.Time
	only     map[string]map[int]bool // replay filter: phase -> case set
	curFile  string
	maxVio   int
	sampleN  int
	finished bool
}

// Start creates the reporter for property id (e.g. "C01") and harness part name.
func Start(t *testing.T, id, part string) *R {
	r := &R{T: t, ID: id, Part: part, Tier: os.Getenv("VERIF_TIER"), start: time.Now(),
		fps: map[uint64]struct{}{}, vioKeys: map[string]int{}, maxVio: 40, sampleN: 3}
	if r.Tier != "thorough" {
		r.Tier = "quick"
	}
	r.Seed = 1
	if s := os.Getenv("VERIF_SEED"); s != "" {
		if v, err := strconv.ParseUint(s, 10, 64); err == nil {
			r.Seed = v
		} else if v, err := strconv.ParseInt(s, 10, 64); err == nil {
			r.Seed = uint64(v)
		}
	}
	r.out = os.Getenv("VERIF_OUT")
	if r.out != "" {
		r.out = strings.ReplaceAll(r.out, "%PART%", part)
		r.curFile = r.out + ".cur"
	}
	// VERIF_CASES = "phase:idx,phase:idx" restricts the run to those cases (replay).
	if c := os.Getenv("VERIF_CASES"); c != "" {
		r.only = map[string]map[int]bool{}
		for _, f := range strings.Split(c, ",") {
			i := strings.LastIndex(f, ":")
			if i < 0 {
				continue
			}
			n, err := strconv.Atoi(f[i+1:])
			if err != nil {
				continue
			}
			if r.only[f[:i]] == nil {
				r.only[f[:i]] = map[int]bool{}
			}
			r.only[f[:i]][n] = true
		}
	}
	r.res = result{Property: id, Part: part, Tier: r.Tier, Seed: r.Seed,
		Counters: map[string]int64{}, Info: map[string]any{}, ViolationCounts: map[string]int{}}
	t.Cleanup(r.Finish)
	return r
}

func (r *R) Quick() bool { return r.Tier != "thorough" }

// N picks a case count by tier.
func (r *R) N(quick, thorough int) int {
	if r.Quick() {
		return quick
	}
	return thorough
}

// Rule sets the evidence "rule" text for this part.
func (r *R) Rule(s string) { r.mu.Lock(); r.res.Rule = s; r.mu.Unlock() }

func (r *R) Assume(s string) { r.mu.Lock(); r.res.Assumptions = append(r.res.Assumptions, s); r.mu.Unlock() }

func (r *R) Exhaustive(b bool) { r.mu.Lock(); r.res.Exhaustive = b; r.mu.Unlock() }

// CaseRand returns the PRNG of case i of a phase: a pure function of (seed, phase, i).
func (r *R) CaseRand(phase string, i int) *Rand {
	return NewRand(mix(mix(r.Seed, hashStr(r.ID+"/"+r.Part+"/"+phase)), uint64(i)))
}

// Wanted reports whether case i of phase should run (always true unless replaying).
func (r *R) Wanted(phase string, i int) bool {
	if r.only == nil {
		return true
	}
	return r.only[phase][i]
}

// Cases runs fn for i in [0,n), each with its own PRNG; a panic inside fn is
// recorded as a violation with key "panic:<phase>" (the code under test must
// not panic in any harness we write; harness bugs show up the same way and are
// fixed in the harness).
func (r *R) Cases(phase string, n int, fn func(i int, rng *Rand)) {
	for i := 0; i < n; i++ {
		if !r.Wanted(phase, i) {
			continue
		}
		r.Mark(phase, i)
		r.runCase(phase, i, fn)
	}
}

// ParCases is Cases over `workers` goroutines (cases must be independent).
func (r *R) ParCases(phase string, n, workers int, fn func(i int, rng *Rand)) {
	if workers < 1 {
		workers = 1
	}
	var wg sync.WaitGroup
	ch := make(chan int, workers)
	for w := 0; w < workers; w++ {
		wg.Add(1)
		go func() {
			defer wg.Done()
			for i := range ch {
				r.runCase(phase, i, fn)
			}
		}()
	}
	for i := 0; i < n; i++ {
		if r.Wanted(phase, i) {
			ch <- i
		}
	}
	close(ch)
	wg.Wait()
}

func (r *R) runCase(phase string, i int, fn func(i int, rng *Rand)) {
	defer func() {
		if p := recover(); p != nil {
			r.Violation("panic:"+phase, phase, i, fmt.Sprintf("panic: %v\n%s", p, trimStack(debug.Stack())), nil)
		}
	}()
	fn(i, r.CaseRand(phase, i))
}

func trimStack(b []byte) string {
	s := string(b)
	if len(s) > 3000 {
		s = s[:3000] + "..."
	}
	return s
}

// Mark records the case about to run in <out>.cur so the driver can attribute a
// process-fatal crash (fatal error, checkptr, unrecovered panic in another
// goroutine) to a case.
func (r *R) Mark(phase string, i int) {
	if r.curFile == "" {
		return
	}
	_ = os.WriteFile(r.curFile, []byte(fmt.Sprintf("%s:%d", phase, i)), 0o644)
}

// Eval records one evaluated case. fp is a canonical fingerprint of the case
// (history / input / topology+schedule); nontrivial says whether the oracle was
// exercised non-vacuously, by the rule stated with Rule().
func (r *R) Eval(fp string, nontrivial bool) {
	h := hashStr(fp)
	r.mu.Lock()
	r.res.Evaluations++
	if nontrivial {
		if _, ok := r.fps[h]; !ok {
			r.fps[h] = struct{}{}
		}
	}
	r.mu.Unlock()
}

// Add bumps a named observation counter (events seen by the monitor).
func (r *R) Add(name string, n int) {
	r.mu.Lock()
	r.res.Counters[name] += int64(n)
	r.mu.Unlock()
}

func (r *R) Counter(name string) int64 {
	r.mu.Lock()
	defer r.mu.Unlock()
	return r.res.Counters[name]
}

// Set stores an informational value in the evidence.
func (r *R) Set(name string, v any) { r.mu.Lock(); r.res.Info[name] = v; r.mu.Unlock() }

// Sample keeps the first few concrete cases for the evidence file.
func (r *R) Sample(v any) {
	r.mu.Lock()
	if len(r.res.Samples) < r.sampleN {
		r.res.Samples = append(r.res.Samples, v)
	}
	r.mu.Unlock()
}

// NeedSample reports whether another sample is still wanted (to avoid building them).
func (r *R) NeedSample() bool {
	r.mu.Lock()
	defer r.mu.Unlock()
	return len(r.res.Samples) < r.sampleN
}

// Violation records a refutation. At most maxVio witnesses are stored in full
// (and at most 3 per key); all are counted per key.
func (r *R) Violation(key, phase string, i int, detail string, witness any) {
	r.mu.Lock()
	defer r.mu.Unlock()
	r.res.ViolationCounts[key]++
	r.vioKeys[key]++
	if r.vioKeys[key] > 3 || len(r.res.Violations) >= r.maxVio {
		return
	}
	if len(detail) > 4000 {
		detail = detail[:4000] + "..."
	}
	r.res.Violations = append(r.res.Violations, Violation{Key: key, Phase: phase, Case: i, Detail: detail, Witness: witness})
}

// Inconclusive records that (part of) the run could not decide.
func (r *R) Inconclusive(reason string) {
	r.mu.Lock()
	r.res.Inconclusive = append(r.res.Inconclusive, reason)
	r.mu.Unlock()
}

// Require marks the run inconclusive when a monitor observed fewer than min events.
func (r *R) Require(counter string, min int64) {
	if r.only != nil {
		return
	}
	if got := r.Counter(counter); got < min {
		r.Inconclusive(fmt.Sprintf("monitor observed %s=%d < floor %d", counter, got, min))
	}
}

// Finish writes the result JSON (also called from t.Cleanup).
func (r *R) Finish() {
	r.mu.Lock()
	defer r.mu.Unlock()
	if r.finished {
		return
	}
	r.finished = true
	r.res.DistinctNontrivial = len(r.fps)
	r.res.WallS = time.Since(r.start).Seconds()
	r.res.Finished = true
	if r.res.Samples == nil {
		r.res.Samples = []any{}
	}
	if r.res.Violations == nil {
		r.res.Violations = []Violation{}
	}
	if r.res.Inconclusive == nil {
		r.res.Inconclusive = []string{}
	}
	keys := make([]string, 0, len(r.res.ViolationCounts))
	for k := range r.res.ViolationCounts {
		keys = append(keys, k)
	}
	sort.Strings(keys)
	b, err := json.MarshalIndent(r.res, "", " ")
	if err != nil {
		// a witness that cannot be marshalled: degrade to strings
		for i := range r.res.Violations {
			r.res.Violations[i].Witness = fmt.Sprintf("%+v", r.res.Violations[i].Witness)
		}
		for i := range r.res.Samples {
			r.res.Samples[i] = fmt.Sprintf("%+v", r.res.Samples[i])
		}
		b, _ = json.MarshalIndent(r.res, "", " ")
	}
	if r.out != "" {
		_ = os.WriteFile(r.out, b, 0o644)
	}
	r.T.Logf("verif %s/%s tier=%s seed=%d evaluations=%d distinct_nontrivial=%d violations=%v inconclusive=%v counters=%v",
		r.ID, r.Part, r.Tier, r.Seed, r.res.Evaluations, r.res.DistinctNontrivial, keys, r.res.Inconclusive, r.res.Counters)
}

// Hex is a small helper for witnesses.
func Hex(b []byte) string {
	const hx = "0123456789abcdef"
	if len(b) > 256 {
		return Hex(b[:256]) + fmt.Sprintf("...(%d bytes)", len(b))
	}
	o := make([]byte, 0, len(b)*2)
	for _, c := range b {
		o = append(o, hx[c>>4], hx[c&15])
	}
	return string(o)
}
