#!/bin/bash
# usage: sweep.sh "<seeds>" [tier] [ids...]  — runs checks sequentially, one summary line each
SEEDS=${1:-"1"}; TIER=${2:-quick}; shift; shift
IDS=${@:-$(ls "$(dirname "$(readlink -f "$0")")/../checks.d" | sed 's/.json//' | sort)}
cd "$(dirname "$(readlink -f "$0")")/.."
for s in $SEEDS; do for c in $IDS; do
  out=$(VERIF_SEED=$s ./check $c --tier $TIER 2>&1); rc=$?
  echo "seed=$s rc=$rc $(echo "$out" | tail -1)"
  if [ $rc -ne 0 ]; then echo "$out" | grep -E "^(VIOLATION|INCONCLUSIVE|  key=)" | head -6 | cut -c1-300; fi
done; done
