#!/bin/bash
# usage: try_round3.sh C01 C02 ...   (round-3 seeds in /tmp/seedout3/<ID> -> /verif/seeded/<ID>-r3)
cd /verif
for c in "$@"; do
  echo "=== $c-r3"
  python3 tools/try_seed.py $c --src /tmp/seedout3/$c --name $c-r3 2>&1 | grep -E '^C[0-9]+ (caught|missed|inconclusive)|"(confirmed|demo_with_patch|demo_without_patch|stock_touched_packages|applies|builds)"' | tr '\n' ' '; echo
done
