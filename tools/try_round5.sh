#!/bin/bash
# usage: try_round4.sh C01 C02 ...   (round-5 seeds in /tmp/seedout5/<ID> -> /verif/seeded/<ID>-r5)
cd /verif
for c in "$@"; do
  echo "=== $c-r5"
  python3 tools/try_seed.py $c --src /tmp/seedout5/$c --name $c-r5 2>&1 | grep -E '^C[0-9]+ (caught|missed|inconclusive)|"(confirmed|demo_with_patch|demo_without_patch|stock_touched_packages|applies|builds)"' | tr '\n' ' '; echo
done
