#!/usr/bin/env python3
"""Prints the prompt for a fresh mutant-seeding sub-agent for one property (property text only)."""
import json, sys
pid = sys.argv[1]
p = [json.loads(l) for l in open('/verif/properties.jsonl') if l.strip()]
p = [x for x in p if x['id'] == pid][0]
wt = '/tmp/seed-%s' % pid
out = '/tmp/seedout/%s' % pid
print(f"""You are helping to evaluate a verification effort for the Go project postalsys/Muti-Metroo (a userspace mesh tunnelling agent). Your job is to play the part of a developer who introduces a realistic regression.

You have your own scratch git worktree of the repository at {wt} (module github.com/postalsys/muti-metroo, detached HEAD). Work ONLY inside {wt} and {out}. Do not read or write anything under /verif, /repo, /root/.vp or other /tmp/seed-* directories.

## The property you must break

{p['id']} - {p['title']}

Statement: {p['statement']}

Quantifier: {p['quantifier']['text']}

Code it is anchored in: {', '.join(p['anchors']['files'])}

## What to produce

A small source change to the repository (non-test .go files only, typically 1-15 lines) that makes the property FALSE for some input / schedule / history, while:
1. the repository still compiles (`go build ./...`),
2. the existing test suite still passes, unedited (run at least the tests of every package you touched and of the packages that use it; the full suite is `go test -vet=off -count=1 ./...` and takes about 4 minutes - run it once at the end),
3. the breakage is NOT something ordinary use would expose at once: it must need something specific to manifest - a particular interleaving, a fault at a particular point, a multi-step sequence of operations, an unusual (boundary / hostile) input, or two cooperating sites that each look fine alone. Prefer a change that looks like a plausible refactor, optimisation or "simplification" a reviewer could wave through. Do not add comments that give it away.

Plus a demonstration: a Go test file (or small program) that FAILS with your change applied and PASSES on the unmodified tree, showing the property violated at the level the statement describes. Keep the demonstration deterministic if you can (if it needs a race, loop until it shows and bound the loop).

## Deliverables (all under {out}/, create the directory)

- patch.diff : `git -C {wt} diff` of your source change ONLY (not the demo test).
- the demonstration file(s), e.g. demo_test.go, and in meta.json the path inside the repository where it must be placed to run (e.g. internal/stream/zz_demo_test.go) and the exact command that runs it.
- meta.json : {{"property": "{p['id']}", "summary": "<what the change does>", "needs_to_manifest": "<the specific condition>", "demo_path_in_repo": "...", "demo_cmd": "...", "demo_result_with_patch": "<observed failure output, short>", "demo_result_without_patch": "pass", "stock_tests_run": "<what you ran and the result>"}}

Leave {wt} with your change applied (uncommitted) and the demo file in place.

## Environment

No network. Use this Go toolchain and environment in every shell call:
  export GOTOOLCHAIN=local GOFLAGS=-mod=mod GOPROXY=off GOSUMDB=off
  GO=/root/go/pkg/mod/golang.org/toolchain@v0.0.1-go1.24.0.linux-amd64/bin/go   # plain `go` is too old
A handful of tests fail in this sandbox regardless of any change (ICMP tests: no ICMP sockets; two internal/filetransfer browse tests that assume the temp dir is not under /tmp; TestMultiTransport_* and TestUDPRelay_MaxAssociationsLimit are flaky when fixed ports are busy) - ignore those. The machine is shared and loaded; be patient with builds.

Verify all three conditions yourself before finishing (build, stock tests pass with the change, demo fails with / passes without the change - do NOT use `git stash` (the stash is shared between all worktrees of the repository and other agents use it concurrently); to test without your change use `git diff > /tmp/seedout/<ID>/p.diff; git apply -R /tmp/seedout/<ID>/p.diff; ...; git apply /tmp/seedout/<ID>/p.diff`). Finish with a short report: the change, why it breaks the property, what it needs to manifest, and the verification you did.""")
