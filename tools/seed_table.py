#!/usr/bin/env python3
"""Regenerates the seeded-changes table of DESIGN.md (between the SEEDED-BEGIN/END markers)
from /verif/seeded/*/meta.json."""
import json, glob, os, re
rows = []
for f in sorted(glob.glob('/verif/seeded/*/meta.json')):
    name = f.split('/')[-2]
    m = json.load(open(f))
    w = m.get('what_we_ran', {})
    chk = ", ".join("%s: %s%s" % (c, v['verdict'], (" (`%s`)" % v['keys'][0]) if v.get('keys') else "") for c, v in w.get('checks', {}).items())
    summ = (m.get('summary') or '').replace('\n', ' ').replace('|', '/')
    if len(summ) > 230:
        summ = summ[:227] + '...'
    need = (m.get('needs_to_manifest') or '').replace('\n', ' ').replace('|', '/')
    if len(need) > 160:
        need = need[:157] + '...'
    first = m.get('first_result', '?')
    rows.append("| %s | %s | %s | %s | %s | %s |" % (name, m.get('breaks_property'), summ, need, first, chk))
tbl = ["| seed | property | change | needs | first result | now |", "|---|---|---|---|---|---|"] + rows
hist = []
for f in sorted(glob.glob('/verif/seeded/*/meta.json')):
    m = json.load(open(f))
    if m.get('first_result') == 'missed':
        hist.append("* **%s** — %s" % (f.split('/')[-2], m.get('why_missed_and_what_changed', '')))
text = "\n".join(tbl) + "\n\nChecks strengthened after a first miss (what was missing, what was added):\n\n" + "\n".join(hist) + "\n"
p = '/verif/DESIGN.md'
s = open(p).read()
if 'TODO-SEEDED' in s:
    s = s.replace('TODO-SEEDED', '<!-- SEEDED-BEGIN -->\n' + text + '<!-- SEEDED-END -->')
else:
    s = re.sub(r'<!-- SEEDED-BEGIN -->.*<!-- SEEDED-END -->', lambda _: '<!-- SEEDED-BEGIN -->\n' + text + '<!-- SEEDED-END -->', s, flags=re.S)
open(p, 'w').write(s)
print(len(rows), 'rows')
