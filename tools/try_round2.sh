#!/bin/bash
# usage: try_round2.sh C01 C02 ...   (round-2 seeds in /tmp/seedout2/<ID> -> /verif/seeded/<ID>-r2)
cd /verif
for c in "$@"; do
  echo "=== $c-r2"
  python3 tools/try_seed.py $c --src /tmp/seedout2/$c --name $c-r2 2>&1 | grep -E '^C[0-9]+ (caught|missed|inconclusive)|"(confirmed|demo_with_patch|demo_without_patch|stock_touched_packages|applies|builds)"' | tr '\n' ' '; echo
done
