#!/usr/bin/env python3
"""try_seed.py <ID> [--full-suite] [--checks C01,C02] [--name <dir under /verif/seeded>]

Confirms a seeded change produced by a mutant-seeding sub-agent (/tmp/seedout/<ID>/) in a
fresh scratch worktree of /repo's HEAD, runs our checks against it, and stores the result in
/verif/seeded/<name>/ (patch.diff, demo, meta.json).

 1. worktree /tmp/try-<ID> from /repo HEAD, apply patch.diff, `go build ./...`
 2. demo: must FAIL with the patch and PASS without it
 3. stock tests: packages touched by the patch (+ --full-suite: the whole pinned suite vs BASELINE)
 4. `VERIF_REPO=/tmp/try-<ID> /verif/check <check>` quick for every listed check -> caught / missed
 5. worktree removed
"""
import json, os, re, shutil, subprocess, sys, time

GO = "/root/go/pkg/mod/golang.org/toolchain@v0.0.1-go1.24.0.linux-amd64/bin/go"
ENV = dict(os.environ, GOTOOLCHAIN="local", GOFLAGS="-mod=mod", GOPROXY="off", GOSUMDB="off")


def sh(cmd, cwd=None, timeout=3600, env=None):
    p = subprocess.run(cmd, shell=True, cwd=cwd, env=env or ENV, stdout=subprocess.PIPE, stderr=subprocess.STDOUT, text=True, timeout=timeout)
    return p.returncode, p.stdout


def main():
    a = sys.argv[1:]
    pid = a[0]
    full = "--full-suite" in a
    checks = [pid]
    name = pid
    if "--checks" in a:
        checks = a[a.index("--checks") + 1].split(",")
    if "--name" in a:
        name = a[a.index("--name") + 1]
    src = "/tmp/seedout/%s" % pid
    if "--src" in a:
        src = a[a.index("--src") + 1]
    meta = json.load(open(os.path.join(src, "meta.json")))
    wt = "/tmp/try-%s" % name
    sh("git -C /repo worktree remove --force %s" % wt)
    shutil.rmtree(wt, ignore_errors=True)
    rc, out = sh("git -C /repo worktree add --detach %s HEAD" % wt)
    if rc != 0:
        print(out); return 2
    res = {"property": pid, "repo_head": sh("git -C /repo rev-parse --short HEAD")[1].strip()}
    try:
        patch = os.path.join(src, "patch.diff")
        rc, out = sh("git apply --check %s && git apply %s" % (patch, patch), cwd=wt)
        if rc != 0:
            res["applies"] = False
            res["apply_output"] = out[-2000:]
            print("patch does not apply:", out[-500:])
            return finish(name, src, meta, res, keep=False)
        res["applies"] = True
        rc, out = sh("%s build ./..." % GO, cwd=wt)
        res["builds"] = rc == 0
        if rc != 0:
            print("does not build", out[-1500:]); return finish(name, src, meta, res, keep=False)
        touched = sorted(set(os.path.dirname(l[6:]) for l in open(patch) if l.startswith("+++ b/") and l.strip().endswith(".go")))
        res["packages_touched"] = touched
        # demo
        demo_rel = meta.get("demo_path_in_repo")
        demo_cmd = meta.get("demo_cmd", "")
        demo_cmd = demo_cmd.replace("/tmp/seed2-%s" % pid, wt).replace("/tmp/seed-%s" % pid, wt)
        mm = re.search(r"\btest\s+-", demo_cmd)
        if mm:  # keep only `test <flags> <pkgs>`; environment and `cd` come from us
            demo_cmd = GO + " " + demo_cmd[mm.start():]
        else:
            demo_cmd = re.sub(r"\bgo test\b", GO + " test", demo_cmd) if GO not in demo_cmd and "$GO" not in demo_cmd else demo_cmd.replace("$GO", GO)
        demo_files = [f for f in os.listdir(src) if f.endswith(".go")]
        if demo_rel and demo_files:
            # single demo file -> demo_path_in_repo; several -> same directory
            for f in demo_files:
                dst = os.path.join(wt, demo_rel if len(demo_files) == 1 else os.path.join(os.path.dirname(demo_rel), f))
                os.makedirs(os.path.dirname(dst), exist_ok=True)
                shutil.copy(os.path.join(src, f), dst)
            rc1, out1 = sh(demo_cmd, cwd=wt, timeout=1800)
            res["demo_with_patch"] = "fail" if rc1 != 0 else "pass"
            res["demo_with_patch_tail"] = out1[-1200:]
            sh("git apply -R %s" % patch, cwd=wt)  # (git stash is shared between worktrees: not used)
            rc2, out2 = sh(demo_cmd, cwd=wt, timeout=1800)
            res["demo_without_patch"] = "fail" if rc2 != 0 else "pass"
            if rc2 != 0:
                res["demo_without_patch_tail"] = out2[-1200:]
            sh("git apply %s" % patch, cwd=wt)
            # remove demo before stock tests / checks
            for f in demo_files:
                dst = os.path.join(wt, demo_rel if len(demo_files) == 1 else os.path.join(os.path.dirname(demo_rel), f))
                try:
                    os.remove(dst)
                except OSError:
                    pass
        else:
            res["demo_with_patch"] = "no-demo"
        # stock tests of touched packages
        if touched:
            # judged against the pinned baseline: only tests that are stable_pass there count
            rc, out = sh("%s test -json -vet=off -count=1 %s" % (GO, " ".join("./" + t for t in touched)), cwd=wt, timeout=3000)
            stable = set(json.load(open("/root/.vp/BASELINE.json"))["stable_pass"])
            failed = []
            for l in out.splitlines():
                try:
                    e = json.loads(l)
                except Exception:
                    continue
                if e.get("Test") and e.get("Action") == "fail" and (e["Package"] + "::" + e["Test"]) in stable:
                    failed.append(e["Package"].split("/")[-1] + "::" + e["Test"])
            res["stock_touched_packages"] = "pass" if not failed else "fail"
            if failed:
                res["stock_touched_failed"] = failed[:20]
        if full:
            outj = "/tmp/try-%s.baseline.json" % name
            sh("cd %s && %s test -json -vet=off -count=1 -timeout 25m ./... > %s 2>/dev/null" % (wt, GO, outj), timeout=3000)
            b = json.load(open("/root/.vp/BASELINE.json"))
            r = {}
            for l in open(outj, errors="replace"):
                try:
                    e = json.loads(l)
                except Exception:
                    continue
                if e.get("Test") and e.get("Action") in ("pass", "fail", "skip"):
                    r[e["Package"] + "::" + e["Test"]] = e["Action"]
            bad = [t for t in b["stable_pass"] if r.get(t) != "pass"]
            res["stock_full_suite_not_passing"] = bad[:20]
            res["stock_full_suite"] = "pass" if not bad else "fail(%d)" % len(bad)
            os.remove(outj)
        # our checks
        res["checks"] = {}
        for c in checks:
            t0 = time.time()
            env = dict(ENV, VERIF_REPO=wt)
            rc, out = sh("/verif/check %s" % c, cwd="/verif", env=env, timeout=3000)
            keys = re.findall(r"^\s+key=(\S+)", out, re.M)
            res["checks"][c] = {"exit": rc, "verdict": {0: "missed", 1: "caught", 2: "inconclusive"}.get(rc, "?"),
                                "keys": keys[:8], "wall_s": round(time.time() - t0, 1), "tail": out[-600:] if rc != 1 else ""}
            print(c, res["checks"][c]["verdict"], keys[:4])
        return finish(name, src, meta, res, keep=True)
    finally:
        sh("git -C /repo worktree remove --force %s" % wt)
        shutil.rmtree(wt, ignore_errors=True)


def finish(name, src, meta, res, keep):
    ok = keep and res.get("demo_with_patch") == "fail" and res.get("demo_without_patch") == "pass" and res.get("stock_touched_packages", "pass") == "pass" \
        and res.get("stock_full_suite", "pass") == "pass"
    res["confirmed"] = bool(ok)
    d = "/verif/seeded/%s" % name
    os.makedirs(d, exist_ok=True)
    for f in os.listdir(src):
        if f.endswith(".go") or f == "patch.diff":
            shutil.copy(os.path.join(src, f), os.path.join(d, f + (".txt" if f.endswith(".go") else "")))
    m = {"breaks_property": res["property"], "summary": meta.get("summary"), "needs_to_manifest": meta.get("needs_to_manifest"),
         "demo_path_in_repo": meta.get("demo_path_in_repo"), "demo_cmd": meta.get("demo_cmd"),
         "demo_note": "demo files are stored with a .txt suffix so they are not compiled from /verif; drop the suffix when placing them",
         "author_report": {k: meta.get(k) for k in ("demo_result_with_patch", "demo_result_without_patch", "stock_tests_run")},
         "what_we_ran": res}
    try:
        prev = json.load(open(os.path.join(d, "meta.json")))
        for k in ("first_result", "why_missed_and_what_changed", "round"):
            if k in prev:
                m[k] = prev[k]
    except Exception:
        pass
    json.dump(m, open(os.path.join(d, "meta.json"), "w"), indent=1)
    print(json.dumps({k: v for k, v in res.items() if not k.endswith("_tail")}, indent=1)[:1500])
    return 0 if ok else 1


if __name__ == "__main__":
    sys.exit(main())
