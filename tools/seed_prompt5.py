#!/usr/bin/env python3
"""Round-5 prompt: round-1 prompt plus the four earlier changes."""
import json, subprocess, sys
pid = sys.argv[1]
base = subprocess.check_output(['python3', '/verif/tools/seed_prompt.py', pid], text=True)
base = base.replace('/tmp/seed-%s' % pid, '/tmp/seed5-%s' % pid).replace('/tmp/seedout/%s' % pid, '/tmp/seedout5/%s' % pid).replace('/tmp/seedout/<ID>', '/tmp/seedout5/%s' % pid)
base = base.replace('other /tmp/seed-* directories', 'other /tmp/seed* directories')
prev = []
for d in (pid, pid + '-r2', pid + '-r3', pid + '-r4'):
    try:
        m = json.load(open('/verif/seeded/%s/meta.json' % d))
        prev.append((m.get('summary') or '').strip()[:800] + "\n  It needed: " + (m.get('needs_to_manifest') or '').strip()[:800])
    except Exception:
        pass
extra = """

## Already tried by others - do something different

Four other developers have already produced the following regressions for this property; do NOT repeat any of them or a close variant. Choose a different code site, a different mechanism and a different triggering condition from all four (think of: a concurrency window, an error/cleanup path, a multi-step history such as reconnect / restart / re-use after close, a configuration combination, aliasing or re-use of a buffer or map key, state that outlives the object it describes, a second entry point into the same mechanism that the others did not touch - e.g. the UDP / ICMP / forward / shell / file-transfer variant of a TCP path, the QUEUED_STATE variant of a flooded command, the withdraw variant of an announce path):

  Previous change 1: %s

  Previous change 2: %s

  Previous change 3: %s

  Previous change 4: %s

You have about 20 minutes: keep the change small, run only the tests of the touched package and its direct users (skip the full suite), and finish.
""" % (prev[0] if prev else '-', prev[1] if len(prev) > 1 else '-', prev[2] if len(prev) > 2 else '-', prev[3] if len(prev) > 3 else '-')
marker = "## What to produce"
print(base.replace(marker, extra.strip() + "\n\n" + marker))
