#!/bin/bash
# usage: apply_fix.sh <diff> <commit message file or string>
set -e
cd /repo
git apply --check "$1"
git apply "$1"
gofmt -l internal | head -3
git add -A
git commit -q -m "$2"
git log --oneline | head -1
