TEMPLATE = r'''package PKG

// C17, handler level (part HPART): the real PKG.Handler driven through PRNG histories in which the
// requesting peer's frames are processed AT the handler's own write points — a STREAM_CLOSE or
// STREAM_RESET handled while the STREAM_OPEN_ACK (or the first STREAM_DATA) is being written, an
// acknowledgement or data write that fails because the peer is gone, targets that are silent,
// send a banner, or hang up at once. After every tunnel has been closed by its peer the handler
// must hold nothing for it: no connection record, no counter slot, no socket to the target, and
// the connection limit must be free again. The peer is played by the StreamWriter the handler
// writes to (the same seam the agent plugs its peer manager into).

import (
	"context"
	"errors"
	"fmt"
	"io"
	"net"
	"sync"
	"sync/atomic"
	"testing"
	"time"

	"github.com/postalsys/muti-metroo/internal/crypto"
	"github.com/postalsys/muti-metroo/internal/identity"
	"github.com/postalsys/muti-metroo/internal/protocol"
	"github.com/postalsys/muti-metroo/internal/verifkit"
)

type c17hScript struct {
	AtAck  string `json:"at_ack,omitempty"`  // "", close, reset, fail, close-late
	AtData string `json:"at_first_data,omitempty"` // "", close, fail
	Target string `json:"target"`            // silent, banner, banner-close, close
	End    string `json:"end"`               // close, reset
}

type c17hWriter struct {
	h        *Handler
	mu       sync.Mutex
	scripts  map[uint64]*c17hScript
	acked    map[uint64]bool
	errCodes map[uint64]uint16
	dataSeen map[uint64]int
	answered chan uint64
	stuck    atomic.Int64
}

// asFrameLoop runs f the way the agent's frame-processing goroutine would (another goroutine)
// and waits for it: the event is fully handled before the write in progress returns.
func (w *c17hWriter) asFrameLoop(f func()) {
	done := make(chan struct{})
	go func() { defer close(done); f() }()
	select {
	case <-done:
	case <-time.After(5 * time.Second):
		w.stuck.Add(1)
	}
}

func (w *c17hWriter) script(id uint64) *c17hScript {
	w.mu.Lock()
	defer w.mu.Unlock()
	if s := w.scripts[id]; s != nil {
		return s
	}
	return &c17hScript{}
}

func (w *c17hWriter) WriteStreamOpenAck(peerID identity.AgentID, streamID uint64, requestID uint64, boundIP net.IP, boundPort uint16, pub [crypto.KeySize]byte) error {
	sc := w.script(streamID)
	switch sc.AtAck {
	case "fail":
		w.mu.Lock()
		w.errCodes[streamID] = 0xffff
		w.mu.Unlock()
		w.answered <- streamID
		return errors.New("peer not connected")
	case "close":
		w.asFrameLoop(func() { w.h.HandleStreamClose(peerID, streamID) })
	case "reset":
		w.asFrameLoop(func() { w.h.HandleStreamReset(peerID, streamID, 1) })
	case "close-late":
		go func() {
			time.Sleep(time.Duration(streamID%7) * 30 * time.Microsecond)
			w.h.HandleStreamClose(peerID, streamID)
		}()
	}
	w.mu.Lock()
	w.acked[streamID] = true
	w.mu.Unlock()
	w.answered <- streamID
	return nil
}

func (w *c17hWriter) WriteStreamOpenErr(_ identity.AgentID, streamID uint64, _ uint64, code uint16, _ string) error {
	w.mu.Lock()
	w.errCodes[streamID] = code
	w.mu.Unlock()
	w.answered <- streamID
	return nil
}

func (w *c17hWriter) WriteStreamData(peerID identity.AgentID, streamID uint64, data []byte, flags uint8) error {
	w.mu.Lock()
	w.dataSeen[streamID]++
	first := w.dataSeen[streamID] == 1
	w.mu.Unlock()
	if first {
		switch w.script(streamID).AtData {
		case "close":
			w.asFrameLoop(func() { w.h.HandleStreamClose(peerID, streamID) })
		case "fail":
			return errors.New("peer not connected")
		}
	}
	return nil
}

func (w *c17hWriter) WriteStreamClose(identity.AgentID, uint64) error { return nil }

// c17hTarget is a TCP service in one of four behaviours; it counts the connections the handler
// still holds open towards it.
type c17hTarget struct {
	ln   net.Listener
	mode string
	open atomic.Int64
	acc  atomic.Int64
}

func c17hStartTarget(mode string) (*c17hTarget, error) {
	ln, err := net.Listen("tcp", "127.0.0.1:0")
	if err != nil {
		return nil, err
	}
	tg := &c17hTarget{ln: ln, mode: mode}
	go func() {
		for {
			c, err := ln.Accept()
			if err != nil {
				return
			}
			tg.acc.Add(1)
			tg.open.Add(1)
			go func(c net.Conn) {
				defer tg.open.Add(-1)
				defer c.Close()
				switch tg.mode {
				case "close":
					return
				case "banner", "banner-close":
					c.Write(make([]byte, 3000))
					if tg.mode == "banner-close" {
						return
					}
				}
				io.Copy(io.Discard, c) // until the handler closes its side
			}(c)
		}
	}()
	return tg, nil
}

func (tg *c17hTarget) port() int { return tg.ln.Addr().(*net.TCPAddr).Port }

func c17hRecords(h *Handler) int {
	h.mu.RLock()
	defer h.mu.RUnlock()
	return len(h.connections)
}

func TestVerif_C17_Handler(t *testing.T) {
	r := verifkit.Start(t, "C17", "HPART")
	r.Rule("history = 4..24 tunnel opens (sequential or concurrent) on one real PKG.Handler, each with a PRNG script: peer close / reset handled while the open acknowledgement or the first data frame is being written, failing acknowledgement or data writes, silent / banner / hanging-up targets; " +
		"then every tunnel the peer has not closed yet is closed or reset by it (never twice); within a bounded wait the handler must hold 0 connection records, ConnectionCount()==0, 0 sockets to the targets, and accept MaxConnections new tunnels; " +
		"non-trivial = history in which >= 1 tunnel was acknowledged and >= 1 peer event was handled inside a write; distinct by scripts")
	modes := []string{"silent", "banner", "banner-close", "close"}
	targets := map[string]*c17hTarget{}
	for _, m := range modes {
		tg, err := c17hStartTarget(m)
		if err != nil {
			r.Inconclusive(err.Error())
			return
		}
		defer tg.ln.Close()
		targets[m] = tg
	}
	r.Cases("handler", r.N(120, 4000), func(ci int, rng *verifkit.Rand) {
		w := &c17hWriter{scripts: map[uint64]*c17hScript{}, acked: map[uint64]bool{}, errCodes: map[uint64]uint16{}, dataSeen: map[uint64]int{}, answered: make(chan uint64, 256)}
		localID, _ := identity.NewAgentID()
		peers := make([]identity.AgentID, 1+rng.Intn(2))
		for i := range peers {
			peers[i], _ = identity.NewAgentID()
		}
		n := rng.Range(4, 24)
		limit := n + 2
		h := c17hNewHandler(localID, w, targets, limit)
		w.h = h
		h.Start()
		defer h.Stop()
		_, pub, err := crypto.GenerateEphemeralKeypair()
		if err != nil {
			r.Inconclusive(err.Error())
			return
		}
		ids := make([]uint64, n)
		scripts := make([]*c17hScript, n)
		inWrite := 0
		for i := range ids {
			ids[i] = uint64(2*i + 1)
			sc := &c17hScript{Target: modes[rng.Intn(len(modes))], End: []string{"close", "reset"}[rng.Intn(2)]}
			switch rng.Intn(8) {
			case 0:
				sc.AtAck = "close"
			case 1:
				sc.AtAck = "reset"
			case 2:
				sc.AtAck = "fail"
			case 3:
				sc.AtAck = "close-late"
			}
			if sc.AtAck == "" && (sc.Target == "banner" || sc.Target == "banner-close") {
				switch rng.Intn(4) {
				case 0:
					sc.AtData = "close"
				case 1:
					sc.AtData = "fail"
				}
			}
			if sc.AtAck == "close" || sc.AtAck == "reset" || sc.AtData == "close" {
				inWrite++
			}
			scripts[i] = sc
			w.scripts[ids[i]] = sc
		}
		open := func(i int) error {
			return c17hOpen(h, ids[i], uint64(1000+i), peers[i%len(peers)], scripts[i].Target, targets, pub)
		}
		concurrent := rng.Chance(1, 2)
		if concurrent {
			var wg sync.WaitGroup
			for i := range ids {
				wg.Add(1)
				go func(i int) { defer wg.Done(); open(i) }(i)
			}
			wg.Wait()
		} else {
			for i := range ids {
				open(i)
			}
		}
		// every open is answered (ack, failed ack write, or error)
		deadline := time.After(20 * time.Second)
		for got := 0; got < n; {
			select {
			case <-w.answered:
				got++
			case <-deadline:
				r.Inconclusive(fmt.Sprintf("handler: only %d of %d opens were answered within 20 s", got, n))
				return
			}
		}
		time.Sleep(time.Duration(rng.Intn(3)) * time.Millisecond)
		// the peer ends every tunnel it believes open (a close for one that is already gone must be harmless)
		w.mu.Lock()
		acked := 0
		for _, id := range ids {
			if w.acked[id] {
				acked++
			}
		}
		w.mu.Unlock()
		order := make([]int, n)
		for i := range order {
			order[i] = i
		}
		for i := n - 1; i > 0; i-- {
			j := rng.Intn(i + 1)
			order[i], order[j] = order[j], order[i]
		}
		for _, i := range order {
			// a peer does not close a tunnel twice, nor one it never saw acknowledged
			if sc := scripts[i]; sc.AtAck != "" || sc.AtData == "close" {
				continue
			}
			p := peers[i%len(peers)]
			if scripts[i].End == "reset" {
				h.HandleStreamReset(p, ids[i], 2)
			} else {
				h.HandleStreamClose(p, ids[i])
			}
		}
		// settle
		var recs int
		var cnt, socks int64
		for k := 0; k < 300; k++ {
			recs, cnt, socks = c17hRecords(h), h.ConnectionCount(), int64(0)
			for _, tg := range targets {
				socks += tg.open.Load()
			}
			if recs == 0 && cnt == 0 && socks == 0 {
				break
			}
			time.Sleep(10 * time.Millisecond)
		}
		wit := map[string]any{"scripts": scripts, "concurrent": concurrent, "acked": acked}
		if recs != 0 {
			r.Violation("handler:connection-records-remain", "handler", ci, fmt.Sprintf("all %d tunnels were closed by their peer, yet %d connection record(s) remain after 3 s (ConnectionCount=%d, sockets to targets=%d)", n, recs, cnt, socks), wit)
		}
		if cnt != 0 {
			r.Violation("handler:connection-count-nonzero", "handler", ci, fmt.Sprintf("all %d tunnels were closed by their peer, yet ConnectionCount()=%d after 3 s (records=%d, sockets to targets=%d)", n, cnt, recs, socks), wit)
		}
		if socks != 0 && recs == 0 && cnt == 0 {
			r.Violation("handler:target-socket-still-open", "handler", ci, fmt.Sprintf("all %d tunnels were closed by their peer and the handler's bookkeeping is empty, yet %d socket(s) to the targets are still open after 3 s", n, socks), wit)
		}
		if recs == 0 && cnt == 0 {
			// the whole limit must be available again
			w.mu.Lock()
			for k := range w.scripts {
				delete(w.scripts, k)
			}
			w.mu.Unlock()
			refused := 0
			for j := 0; j < limit; j++ {
				id := uint64(100001 + 2*j)
				if err := c17hOpen(h, id, uint64(5000+j), peers[0], "silent", targets, pub); err != nil {
					refused++
					continue
				}
				select {
				case <-w.answered:
				case <-time.After(10 * time.Second):
				}
				w.mu.Lock()
				if w.errCodes[id] == protocol.ErrConnectionLimit {
					refused++
				}
				w.mu.Unlock()
			}
			if refused > 0 {
				r.Violation("handler:limit-consumed-by-closed-tunnels", "handler", ci, fmt.Sprintf("no tunnel exists, yet %d of %d new tunnels (limit %d) were refused", refused, limit, limit), wit)
			}
		}
		if w.stuck.Load() > 0 {
			r.Inconclusive("handler: a peer event injected inside a write did not return within 5 s")
		}
		r.Add("handler_tunnels_acknowledged", acked)
		r.Add("handler_peer_events_inside_a_write", inWrite)
		r.Eval(fmt.Sprintf("handler/%v/%v", concurrent, scripts), acked > 0 && inWrite > 0)
		if r.NeedSample() {
			r.Sample(map[string]any{"opens": n, "acknowledged": acked, "peer_events_inside_a_write": inWrite, "concurrent": concurrent, "first_scripts": scripts[:min(4, len(scripts))]})
		}
	})
	r.Require("handler_tunnels_acknowledged", 200)
	r.Require("handler_peer_events_inside_a_write", 50)
}

var _ = context.Background
'''

FORWARD = r'''
func c17hNewHandler(localID identity.AgentID, w *c17hWriter, targets map[string]*c17hTarget, limit int) *Handler {
	cfg := DefaultHandlerConfig()
	for m, tg := range targets {
		cfg.Endpoints = append(cfg.Endpoints, Endpoint{Key: m, Target: fmt.Sprintf("127.0.0.1:%d", tg.port())})
	}
	cfg.ConnectTimeout = 5 * time.Second
	cfg.IdleTimeout = time.Minute
	cfg.MaxConnections = limit
	return NewHandler(cfg, localID, w)
}

func c17hOpen(h *Handler, streamID, requestID uint64, peer identity.AgentID, target string, targets map[string]*c17hTarget, pub [crypto.KeySize]byte) error {
	return h.HandleStreamOpen(context.Background(), streamID, requestID, peer, target, pub)
}
'''

EXIT = r'''
func c17hNewHandler(localID identity.AgentID, w *c17hWriter, targets map[string]*c17hTarget, limit int) *Handler {
	cfg := DefaultHandlerConfig()
	cfg.AllowedRoutes, _ = ParseAllowedRoutes([]string{"127.0.0.0/8"})
	cfg.ConnectTimeout = 5 * time.Second
	cfg.IdleTimeout = time.Minute
	cfg.MaxConnections = limit
	return NewHandler(cfg, localID, w)
}

func c17hOpen(h *Handler, streamID, requestID uint64, peer identity.AgentID, target string, targets map[string]*c17hTarget, pub [crypto.KeySize]byte) error {
	return h.HandleStreamOpen(context.Background(), streamID, requestID, peer, "127.0.0.1", uint16(targets[target].port()), pub)
}
'''
for pkg, part, extra in (("forward", "forward-handler", FORWARD), ("exit", "exit-handler", EXIT)):
    s = TEMPLATE.replace("PKG", pkg).replace("HPART", part) + extra
    open("/verif/harness/%s/c17h_test.go" % pkg, "w").write(s)
