#!/usr/bin/env python3
"""Round-2 prompt: same as round 1 plus 'a different kind of change than <round-1 summary>'."""
import json, subprocess, sys
pid = sys.argv[1]
base = subprocess.check_output(['python3', '/verif/tools/seed_prompt.py', pid], text=True)
base = base.replace('/tmp/seed-%s' % pid, '/tmp/seed2-%s' % pid).replace('/tmp/seedout/%s' % pid, '/tmp/seedout2/%s' % pid).replace('/tmp/seedout/<ID>', '/tmp/seedout2/%s' % pid)
base = base.replace('other /tmp/seed-* directories', 'other /tmp/seed* directories')
m = json.load(open('/verif/seeded/%s/meta.json' % pid))
extra = """

## Already tried by someone else - do something different

Another developer has already produced the following regression for this property; do NOT repeat it or a close variant. Choose a different code site, a different mechanism and a different triggering condition (for example, if theirs was an input boundary, make yours a concurrency window, an error/cleanup path, a multi-step history, a configuration combination, aliasing/reuse of a buffer, or another one of the code paths the property quantifies over):

  Previous change: %s
  It needed: %s
""" % ((m.get('summary') or '').strip(), (m.get('needs_to_manifest') or '').strip())
marker = "## What to produce"
print(base.replace(marker, extra.strip() + "\n\n" + marker))
