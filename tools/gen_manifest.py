#!/usr/bin/env python3
"""Regenerates /verif/MANIFEST.json from checks.json (+ properties.jsonl for the id list).
Properties without an entry in checks.json go to not_applicable with the reason in
not_applicable.json (or a default 'not built yet' reason)."""
import json, os, subprocess
V = os.path.dirname(os.path.dirname(os.path.abspath(__file__)))
import glob
checks = json.load(open(os.path.join(V, "checks.json")))
for f in sorted(glob.glob(os.path.join(V, "checks.d", "*.json"))):
    checks.update(json.load(open(f)))
props = [json.loads(l) for l in open(os.path.join(V, "properties.jsonl")) if l.strip()]
na_reasons = {}
p = os.path.join(V, "not_applicable.json")
if os.path.exists(p):
    na_reasons = json.load(open(p))
hooks = []
try:
    out = subprocess.check_output(["git", "-C", "/repo", "log", "--format=%H %s"], text=True)
    for l in out.splitlines():
        h, _, s = l.partition(" ")
        if s.startswith("verif-hook:"):
            hooks.append(h)
except Exception:
    pass
m = {
    "version": 1,
    "setup_cmd": "./setup.sh",
    "hooks": {
        "guard": "verif",
        "enable": "go test -tags verif -overlay <generated overlay mapping /verif/harness/** into /repo/internal/**> (done by ./check)",
        "baseline_off_cmd": "/verif/baseline_off.sh",
        "source_commits": hooks,
        "add_only": True,
    },
    "engines": [
        {"name": "check", "path": "/verif/check",
         "serves_properties": sorted(checks.keys()),
         "kind_free_text": "runtime-monitoring driver: go test -overlay harnesses (in-process monitors, reference-model oracles, invariant hooks), Go race detector, QUIT watchdog, known-finding classification, evidence writer"},
    ],
    "checks": [],
    "not_applicable": [],
    "notes": "All checks are runtime monitors over executions of the real code built from /repo's working tree; see DESIGN.md. Exit 0 held / 1 VIOLATION / 2 inconclusive.",
}
for pr in props:
    pid = pr["id"]
    c = checks.get(pid)
    if not c:
        m["not_applicable"].append({"property_id": pid, "reason": na_reasons.get(pid, "no check registered yet in this revision of /verif (runtime monitor planned in DESIGN.md section 2)")})
        continue
    m["checks"].append({
        "property_id": pid,
        "quick_cmd": "./check %s --tier quick" % pid,
        "thorough_cmd": "./check %s --tier thorough" % pid,
        "evidence_file": "evidence/%s.json" % pid,
        "replay_cmd_template": "./check %s --replay {path}" % pid,
        "engine": "check",
        "level_claimed": {"category": c.get("level", "exploration"), "text": c.get("level_text", ""), "design_ref": "DESIGN.md section 2, " + pid},
        "level_note": c.get("level_note", ""),
        "technique": c.get("technique", "runtime monitoring"),
    })
json.dump(m, open(os.path.join(V, "MANIFEST.json"), "w"), indent=1)
print("MANIFEST.json: %d checks, %d not_applicable" % (len(m["checks"]), len(m["not_applicable"])))
