#!/bin/bash
# usage: try_round4.sh C01 C02 ...   (round-4 seeds in /tmp/seedout4/<ID> -> /verif/seeded/<ID>-r4)
cd /verif
for c in "$@"; do
  echo "=== $c-r4"
  python3 tools/try_seed.py $c --src /tmp/seedout4/$c --name $c-r4 2>&1 | grep -E '^C[0-9]+ (caught|missed|inconclusive)|"(confirmed|demo_with_patch|demo_without_patch|stock_touched_packages|applies|builds)"' | tr '\n' ' '; echo
done
