#!/usr/bin/env python3
"""Run mutants: for each, apply to worktree, optionally run /verif/check, run stock tests, restore."""
import subprocess, sys, os, shutil, re, json
GO="/root/go/pkg/mod/golang.org/toolchain@v0.0.1-go1.24.0.linux-amd64/bin/go"
env=dict(os.environ, GOTOOLCHAIN="local", GOFLAGS="-mod=mod", GOPROXY="off", GOSUMDB="off")
H="internal/socks5/handler.go"; A="internal/socks5/auth.go"; U="internal/socks5/udp.go"; G="internal/agent/agent.go"; WSL="internal/socks5/ws_listener.go"
M=[
 # C23 (on unfixed tree)
 ("C23","/tmp/wt-c23","port-little-endian",H,'req.DestPort = binary.BigEndian.Uint16(portBuf)','req.DestPort = binary.LittleEndian.Uint16(portBuf)'),
 ("C23","/tmp/wt-c23","domain-len-plus1",H,'domain := make([]byte, domainLen)','domain := make([]byte, domainLen+1)'),
 ("C23","/tmp/wt-c23","domain-len-minus1",H,'req.DestAddr = string(domain)','req.DestAddr = string(domain[:len(domain)-1])'),
 ("C23","/tmp/wt-c23","v6-reply-as-v4",H,'\t\taddrType = AddrTypeIPv6\n\t\taddrBytes = bindIP','\t\taddrType = AddrTypeIPv4\n\t\taddrBytes = bindIP'),
 ("C23","/tmp/wt-c23","badcmd-generic-failure",H,'\t\th.sendReply(conn, ReplyCmdNotSupported, nil, 0)\n\t\treturn fmt.Errorf("unsupported command: %d", req.Command)','\t\th.sendReply(conn, ReplyServerFailure, nil, 0)\n\t\treturn fmt.Errorf("unsupported command: %d", req.Command)'),
 ("C23","/tmp/wt-c23","badatyp-silent",H,'\t\th.sendReply(conn, ReplyAddrNotSupported, nil, 0)\n\t\treturn nil, fmt.Errorf("unsupported address type: %d", req.AddrType)','\t\treturn nil, fmt.Errorf("unsupported address type: %d", req.AddrType)'),
 ("C23","/tmp/wt-c23","v6-uses-last4",H,'\t\treq.DestIP = net.IP(addr)\n\t\treq.DestAddr = req.DestIP.String()\n\t\treq.RawDest = addr\n\n\tdefault:','\t\treq.DestIP = net.IP(addr[12:])\n\t\treq.DestAddr = req.DestIP.String()\n\t\treq.RawDest = addr\n\n\tdefault:'),
 ("C23","/tmp/wt-c23","timeout-reported-as-success",H,'\treply := mapErrorToReply(err)\n\th.sendReply(conn, reply, nil, 0)','\treply := mapErrorToReply(err)\n\tif reply == ReplyTTLExpired {\n\t\treply = ReplySucceeded\n\t}\n\th.sendReply(conn, reply, nil, 0)'),
 ("C23","/tmp/wt-c23","reply-rsv-nonzero-on-error",H,'\tbuf[2] = 0x00 // RSV','\tbuf[2] = reply // RSV'),
 ("C23","/tmp/wt-c23","domain-trailing-dot-trimmed",H,'\t\treq.DestAddr = string(domain)\n','\t\tif domain[len(domain)-1] == \'.\' {\n\t\t\tdomain = domain[:len(domain)-1]\n\t\t}\n\t\treq.DestAddr = string(domain)\n'),
 # C21 (on fixed tree)
 ("C21","/tmp/wt-c21","fix-reverted",A,'\t\t} else if cfg.Required {\n','\t\t} else if cfg.Required && false {\n'),
 ("C21","/tmp/wt-c21","fix-only-for-nonnil-map",A,'\t\t} else if cfg.Required {\n','\t\t} else if cfg.Required && cfg.Users != nil && cfg.HashedUsers != nil && len(cfg.Users) < 0 {\n'),
 ("C21","/tmp/wt-c21","wrong-nonempty-password-accepted",A,'\tif !a.Credentials.Valid(string(username), string(password)) {','\tif !a.Credentials.Valid(string(username), string(password)) && len(password) == 0 {'),
 ("C21","/tmp/wt-c21","static-unknown-user-ok",A,'\t\tsubtle.ConstantTimeCompare([]byte(password), []byte(password))\n\t\treturn false','\t\tsubtle.ConstantTimeCompare([]byte(password), []byte(password))\n\t\treturn true'),
 ("C21","/tmp/wt-c21","noauth-fallback-when-offered-first",H,'\tif selectedAuth == nil {\n\t\t// No acceptable method','\tif selectedAuth == nil && len(methods) > 0 && methods[0] == AuthMethodNoAuth {\n\t\tselectedAuth = &NoAuthAuthenticator{}\n\t}\n\tif selectedAuth == nil {\n\t\t// No acceptable method'),
 ("C21","/tmp/wt-c21","agent-required-false",G,'\t\tRequired:    true,','\t\tRequired:    false,'),
 ("C21","/tmp/wt-c21","auth-failure-not-returned",A,'\t\twriter.Write([]byte{0x01, AuthStatusFailure})\n\t\treturn "", errors.New("authentication failed")','\t\twriter.Write([]byte{0x01, AuthStatusFailure})\n\t\treturn "", nil'),
 ("C21","/tmp/wt-c21","handle-ignores-non-eof-auth-error",H,'\t_, err := h.authenticate(conn)\n\tif err != nil {','\t_, err := h.authenticate(conn)\n\tif err != nil && errors.Is(err, io.EOF) {'),
 ("C21","/tmp/wt-c21","malformed-hash-accepts",A,'\treturn bcrypt.CompareHashAndPassword([]byte(storedHash), []byte(password)) == nil\n}','\treturn bcrypt.CompareHashAndPassword([]byte(storedHash), []byte(password)) != bcrypt.ErrMismatchedHashAndPassword\n}'),
 ("C21","/tmp/wt-c21","agent-no-users-means-noauth",G,'\tif !a.cfg.SOCKS5.Auth.Enabled {\n\t\treturn []socks5.Authenticator{&socks5.NoAuthAuthenticator{}}','\tif !a.cfg.SOCKS5.Auth.Enabled || len(a.cfg.SOCKS5.Auth.Users) == 0 {\n\t\treturn []socks5.Authenticator{&socks5.NoAuthAuthenticator{}}'),
 ("C21","/tmp/wt-c21","agent-empty-password-kept",G,'\t\t} else if u.Password != "" {\n\t\t\t// Fall back to plaintext password (deprecated)\n\t\t\tusers[u.Username] = u.Password','\t\t} else {\n\t\t\t// Fall back to plaintext password (deprecated)\n\t\t\tusers[u.Username] = u.Password'),
 # C22 (on fixed tree)
 ("C22","/tmp/wt-c22","fix-reverted-order",U,'\t\tif !a.isFromClient(clientAddr) {\n\t\t\tcontinue\n\t\t}\n\n\t\t// Record the client address on its first datagram (replies go there)\n\t\ta.mu.Lock()\n\t\tif a.ActualClientAddr == nil {\n\t\t\ta.ActualClientAddr = clientAddr\n\t\t}\n\t\ta.mu.Unlock()\n','\t\ta.mu.Lock()\n\t\tif a.ActualClientAddr == nil {\n\t\t\ta.ActualClientAddr = clientAddr\n\t\t}\n\t\ta.mu.Unlock()\n\t\tif !a.isFromClient(clientAddr) {\n\t\t\tcontinue\n\t\t}\n'),
 ("C22","/tmp/wt-c22","no-tcp-peer-fallback",U,'\tif a.TCPConn != nil {\n\t\tif peer, ok','\tif a.TCPConn == nil {\n\t\tif peer, ok'),
 ("C22","/tmp/wt-c22","reply-to-last-accepted-sender(equivalent)",U,'\t\tif a.ActualClientAddr == nil {\n\t\t\ta.ActualClientAddr = clientAddr\n\t\t}\n\t\ta.mu.Unlock()\n\n\t\t// Parse SOCKS5 UDP header','\t\ta.ActualClientAddr = clientAddr\n\t\ta.mu.Unlock()\n\n\t\t// Parse SOCKS5 UDP header'),
 ("C22","/tmp/wt-c22","filter-only-after-first",U,'\tif expected != nil && expected.IP != nil && !expected.IP.IsUnspecified() {\n\t\treturn addr.IP.Equal(expected.IP)\n\t}\n\tif a.TCPConn != nil {','\tif actual == nil {\n\t\treturn true\n\t}\n\tif expected != nil && expected.IP != nil && !expected.IP.IsUnspecified() {\n\t\treturn addr.IP.Equal(expected.IP)\n\t}\n\tif a.TCPConn != nil {'),
 ("C22","/tmp/wt-c22","malformed-skips-filter",U,'\t\tif !a.isFromClient(clientAddr) {\n\t\t\tcontinue\n\t\t}','\t\tif n >= 10 && !a.isFromClient(clientAddr) {\n\t\t\tcontinue\n\t\t}'),
 ("C22","/tmp/wt-c22","declared-port-match-suffices",U,'\t\treturn addr.IP.Equal(expected.IP)\n\t}\n\tif a.TCPConn != nil {','\t\treturn addr.IP.Equal(expected.IP) || (expected.Port != 0 && addr.Port == expected.Port)\n\t}\n\tif a.TCPConn != nil {'),
 ("C22","/tmp/wt-c22","v4-mapped-declared-unfiltered",U,'\tif expected != nil && expected.IP != nil && !expected.IP.IsUnspecified() {\n\t\treturn addr.IP.Equal(expected.IP)\n\t}','\tif expected != nil && expected.IP != nil && !expected.IP.IsUnspecified() {\n\t\tif len(expected.IP) == 16 && expected.IP.To4() != nil {\n\t\t\treturn true\n\t\t}\n\t\treturn addr.IP.Equal(expected.IP)\n\t}'),
]
PK={"C23":["./internal/socks5/"],"C21":["./internal/socks5/","./internal/agent/"],"C22":["./internal/socks5/"]}
sel=sys.argv[1] if len(sys.argv)>1 else ""
mode=sys.argv[2] if len(sys.argv)>2 else "both"   # check | stock | both
out=[]
for (cid,wt,name,f,old,new) in M:
    if sel and sel not in (cid, name): continue
    p=os.path.join(wt,f); orig=open(p).read()
    if orig.count(old)!=1:
        print("SKIP",cid,name,"pattern count",orig.count(old)); continue
    open(p,"w").write(orig.replace(old,new))
    try:
        res={"id":cid,"name":name}
        if mode in("check","both"):
            r=subprocess.run(["/verif/check",cid],env=dict(env,VERIF_REPO=wt),capture_output=True,text=True)
            keys=sorted(set(re.findall(r"key=(\S+)",r.stdout)))
            res["check_exit"]=r.returncode; res["keys"]=keys
            res["inconclusive"]=len(re.findall(r"^INCONCLUSIVE",r.stdout,re.M))
        if mode in("stock","both"):
            r=subprocess.run([GO,"test","-vet=off","-count=1"]+PK[cid],cwd=wt,env=env,capture_output=True,text=True)
            res["stock_pass"]= r.returncode==0
            if r.returncode!=0:
                res["stock_fail"]=sorted(set(re.findall(r"--- FAIL: (\S+)",r.stdout)))[:6] or r.stdout[-300:]
        print(json.dumps(res),flush=True)
    finally:
        open(p,"w").write(orig)
