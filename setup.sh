#!/bin/bash
# Offline setup: nothing is fetched. Pre-compiles the test dependencies of the packages the
# harnesses are injected into, so the first quick check does not pay the cold build.
export GOTOOLCHAIN=local GOFLAGS=-mod=mod GOPROXY=off GOSUMDB=off
GO=/root/go/pkg/mod/golang.org/toolchain@v0.0.1-go1.24.0.linux-amd64/bin/go
[ -x "$GO" ] || GO=go1.26
cd /repo && $GO test -tags verif -vet=off -count=1 -run '^$' ./internal/... >/dev/null 2>&1
mkdir -p /verif/evidence /verif/replays /verif/.work
exit 0
